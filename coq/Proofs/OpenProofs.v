(* Proofs about M-OPEN over the walker table read from the source. *)
From Coq Require Import String List Bool Arith.
Import ListNotations.
From WZ Require Import Model.Walk Model.Open Gen.Walkers Proofs.WalkProofs Corr.WalkCorr.
Open Scope string_scope.

Definition is_some {A} (o : option A) : bool := match o with Some _ => true | None => false end.

(* Open succeeds or fails by the container and the main part alone: the optional parts never make it fail *)
Theorem optional_parts_never_fail ws en z d a b c e a' b' c' e' :
  is_some (open_pkg ws en (mkPkg z d a b c e)) = is_some (open_pkg ws en (mkPkg z d a' b' c' e')).
Proof.
  unfold open_pkg. cbn [p_zip_ok p_doc]. destruct z; [|reflexivity]. cbn [negb].
  destruct d as [[eof ts]|]; [|reflexivity]. destruct (open_doc ws en eof ts); reflexivity.
Qed.

(* an optional part that is missing or damaged is replaced by the default, a good one is used *)
Theorem optional_parts_fall_back ws en p d :
  open_pkg ws en p = Some d ->
  d_ct d = part_good (p_ct p) /\ d_rels d = part_good (p_rels p) /\ d_docrels d = part_good (p_docrels p).
Proof.
  unfold open_pkg. destruct (negb (p_zip_ok p)); [discriminate|]. destruct (p_doc p) as [[eof ts]|]; [|discriminate].
  destruct (open_doc ws en eof ts); try discriminate. intros H. injection H as <-. repeat split.
Qed.

(* Open answers for every package: it fails exactly when the container is unreadable, the main part is missing, or
   the reader's walk over the main part's tokens ends in an error or without having met the root element *)
Theorem open_pkg_answers ws en p :
  find_walker ws en <> None ->
  (open_pkg ws en p = None <->
   p_zip_ok p = false \/ p_doc p = None \/ exists eof ts, p_doc p = Some (eof, ts) /\ open_doc ws en eof ts = OpenErr).
Proof.
  intros Hf. unfold open_pkg. destruct (p_zip_ok p); cbn [negb].
  - destruct (p_doc p) as [[eof ts]|].
    + pose proof (open_doc_answers ws en eof ts Hf) as Ha.
      destruct (open_doc ws en eof ts) eqn:E; split; intros H; try discriminate H; try contradiction.
      * destruct H as [H|[H|[eof' [ts' [H1 H2]]]]]; try discriminate. injection H1 as <- <-. rewrite E in H2. discriminate.
      * right. right. exists eof, ts. split; [reflexivity | exact E].
      * reflexivity.
    + split; intros _; [right; left; reflexivity | reflexivity].
  - split; intros _; [left; reflexivity | reflexivity].
Qed.

(* the table read from the source is consistent, and it has the entry point *)
Lemma inst_table_ok : table_ok walkers = true.
Proof. vm_compute. reflexivity. Qed.
Lemma inst_entry : find_walker walkers entry <> None.
Proof. vm_compute. discriminate. Qed.

Definition doc_tokens (ns : bool) (body : list tok) : list tok :=
  [TOther; TStart "document" ns] ++ body ++ [TEnd "document"].

(* the historical defects, on the current table: an empty main part, a root in another namespace and a root of
   another name are rejected with an error; a truncated body is rejected; content after the root is not looked at *)
Example empty_main_part_rejected : open_doc walkers entry true [] = OpenErr.
Proof. vm_compute. reflexivity. Qed.
Example strict_namespace_rejected :
  open_doc walkers entry true (doc_tokens false [TStart "body" false; TStart "p" false; TEnd "p"; TEnd "body"]) = OpenErr.
Proof. vm_compute. reflexivity. Qed.
Example other_root_rejected : open_doc walkers entry true [TStart "settings" true; TEnd "settings"] = OpenErr.
Proof. vm_compute. reflexivity. Qed.
Example truncated_body_rejected :
  open_doc walkers entry false [TStart "document" true; TStart "body" true; TStart "p" true; TStart "r" true] = OpenErr.
Proof. vm_compute. reflexivity. Qed.
(* an ordinary document opens, and the elements the reader reacts to are these, in this order (the names of the reader
   functions that react are left out: they are not part of the behaviour); the run and the table directly in the body's
   run are skipped *)
Example ordinary_document_opens :
  match open_doc walkers entry true
    (doc_tokens true [TStart "body" true; TStart "p" true; TStart "r" true; TStart "t" true; TOther; TEnd "t"; TEnd "r"; TEnd "p";
                      TStart "tbl" true; TStart "tr" true; TStart "tc" true; TStart "p" true; TEnd "p"; TEnd "tc"; TEnd "tr"; TEnd "tbl";
                      TStart "r" true; TStart "tbl" true; TEnd "tbl"; TEnd "r"; TEnd "body"]) with
  | OpenOk hits => map snd hits = ["document"; "body"; "p"; "r"; "t"; "tbl"; "tr"; "tc"; "p"]
  | _ => False
  end.
Proof. vm_compute. reflexivity. Qed.
