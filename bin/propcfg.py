# per-property configuration for bin/check
PROPS = {
    "C12": {
        "n": {"quick": 1500, "thorough": 40000},
        "per_shard": 100,
        "corr_targets": ["Corr/PageCorr.vo"],
        "corr": "Corr/PageCorr.v: Model.Page.step vs SetPageSettings/GetPageSettings and the w:sectPr attributes after every call",
        "trusted_base": ["Gen/PageConsts.v regenerated from pkg/document/page.go on every run"],
        "assumptions": [
            "float64 arithmetic of mmToTwips/twipsToMM agrees with the exact rational model (checked: per-run sweep over twips values, and every generated history)",
            "save+open of section properties is modelled as the identity on (pgSz, pgMar, docGrid); the implementation's print/parse is exercised by the Reopen op",
        ],
    },
}
_PKG = {
    "n": {"quick": 1200, "thorough": 20000},
    "per_shard": 40,
    "corr_targets": ["Corr/PkgCorr.vo"],
    "corr": "Corr/PkgCorr.v: Model.Pkg.step/render vs the projection of every saved package (relationships, parts, content types, section references, picture embeds, media bytes)",
    "trusted_base": ["strings (part names, relationship ids and types) are abstracted to datatypes by harness/pkgabs.go"],
    "assumptions": [
        "archive/zip and encoding/xml are trusted to write/read what they are given; the independent reader uses them as tokeniser only",
        "payloads of generated XML parts are opaque atoms in the model; their well-formedness is judged on the real bytes by the oracle",
    ],
}
for _p in ("C01", "C02", "C04", "C10", "C11"):
    PROPS[_p] = dict(_PKG)
PROPS["C01"] = dict(_PKG, corr_targets=["Corr/PkgCorr.vo", "Corr/RawPartCorr.vo"],
                    corr=_PKG["corr"] + "; Corr/RawPartCorr.v: Model.RawPart (reader of an existing numbering / footnotes / endnotes part by input offsets, the start and end tag the writers put around the kept children) vs the part the library writes after a list item or a note was added to an opened package, for parts in many spellings (prefixes, default namespace, blanks and line breaks in tags, self-closing root, comments, processing instructions and CDATA, damaged parts)")
PROPS["C10"] = dict(_PKG, corr_targets=["Corr/PkgCorr.vo", "Corr/ExtentCorr.vo"],
                    corr=_PKG["corr"] + "; Corr/ExtentCorr.v: Model.Extent.extent vs the wp:extent of every body picture of every saved document whose pixel size and size configuration the harness knows (one EMU of tolerance for the floating-point derivation), configurations shared between additions included")

PROPS["C08"] = {
    "n": {"quick": 900, "thorough": 30000},
    "per_shard": 60,
    "corr_targets": ["Corr/BodyCorr.vo"],
    "corr": "Corr/BodyCorr.v: Model.Body.step vs Body.Elements after every call, and Model.Body.serialize vs the children of w:body in every saved main part",
    "trusted_base": ["element identity is tracked by the harness through Go pointer identity"],
    "assumptions": ["documents are built through the API: at most one section-settings element unless the caller writes Body.Elements directly"],
}

PROPS["C14"] = {
    "n": {"quick": 1500, "thorough": 40000},
    "per_shard": 60,
    "corr_targets": ["Corr/StyleCorr.vo"],
    "corr": "Corr/StyleCorr.v: Model.Style.resolve_top vs GetStyleWithInheritance on histories of AddStyle / in-place edits / RemoveStyle / queries (setting objects identified by pointer)",
    "trusted_base": ["Gen/StyleFields.v and Gen/CloneFields.v regenerated from pkg/style/style.go on every run", "setting objects are identified by Go pointer identity in the harness"],
    "assumptions": ["deep-copy (as opposed to field-complete) cloning is judged by the harness (scribbling through the clone), the table check is syntactic"],
}

PROPS["C05"] = {
    "n": {"quick": 1, "thorough": 1},
    "per_shard": 400,
    "corr_targets": ["Corr/SaveIOCorr.vo"],
    "corr": "Corr/SaveIOCorr.v: Model.SaveIO.save with the checks read from the source vs the real Save under an injected write failure at byte offset k / onto an existing target",
    "trusted_base": ["Gen/SaveEffects.v regenerated from Document.Save on every run", "RLIMIT_FSIZE with SIGXFSZ ignored as the fault injector (kernel behaviour observed, not modelled)"],
    "assumptions": ["archive/zip reports a failed flush of its buffered writer at the latest from Close (sticky error) - modelled, and exercised by the fault enumeration", "short writes and close(2) errors of network file systems are modelled (fclose_fails) but cannot be injected here"],
}

PROPS["C07"] = {
    "n": {"quick": 120, "thorough": 3000},
    "per_shard": 500,
    "race": True,
    "corr_targets": ["Corr/WorldCorr.vo"],
    "corr": "Corr/WorldCorr.v: the model (local steps) predicts that every document's projection under every plan equals its projection alone; the harness runs each pair of histories in fresh processes (alone, both orders, interleaved, concurrent under -race)",
    "trusted_base": ["Gen/Globals.v regenerated from the three packages on every run", "Go race detector for memory-level races"],
    "assumptions": ["the model is at operation granularity; memory-level data races are exhibited only by the race detector on the concurrent plans", "parts are compared in a canonical form (children of the root sorted) because map iteration order decides the order of styles / notes / numbering definitions"],
}

PROPS["C15"] = {
    "n": {"quick": 900, "thorough": 30000},
    "per_shard": 80,
    "corr_targets": ["Corr/ListsCorr.vo"],
    "corr": "Corr/ListsCorr.v: Model.Lists vs numbering.xml / notes parts / TOC content control / accessors read from the saved package at every check point of a history",
    "trusted_base": ["Gen/NumKey.v and Gen/HeadingMap.v regenerated from the sources on every run"],
    "assumptions": ["documents created by New() (opened documents with their own notes/numbering definitions are C13's findings)"],
}

PROPS["C13"] = {
    "n": {"quick": 1200, "thorough": 30000},
    "per_shard": 80,
    "corr_targets": ["Corr/RefsCorr.vo"],
    "corr": "Corr/RefsCorr.v: Model.Refs.save_part / used vs the style ids defined by styles.xml and used by document.xml in every saved package of a history",
    "trusted_base": ["style ids are abstracted to atoms per case by the harness"],
    "assumptions": ["a style is removed only while no content uses it (removing a style in use leaves a dangling reference: user error, not judged)", "numbering / note ids of library-created documents are C15's; for opened documents with their own numbering see the known finding"],
}

PROPS["C09"] = {
    "n": {"quick": 1500, "thorough": 40000},
    "per_shard": 60,
    "corr_targets": ["Corr/TableCorr.vo"],
    "corr": "Corr/TableCorr.v: Model.Table.step (physical cells, Go slice rules incl. panics) vs the table after every call (grid, span, vMerge, paragraph atoms, result class)",
    "trusted_base": ["cell contents are abstracted to the atom of the first run of each paragraph"],
    "assumptions": ["tables are created by CreateTable/AddTable (every cell has properties); cells hold no pictures (CopyTable shares drawing objects)"],
}

PROPS["C03"] = {
    "n": {"quick": 240, "thorough": 4000},
    "per_shard": 25,
    "corr_targets": ["Corr/SchemaCorr.vo", "Corr/XmlTextCorr.vo"],
    "corr": "Corr/SchemaCorr.v: Model.Schema read (write d) over the tables of Gen/Schema.v vs the body document.Open returns for the saved bytes, and vs the body after a second cycle; Corr/XmlTextCorr.v: Model.XmlText escape/unescape vs xml.EscapeText and xml.Decoder",
    "trusted_base": [
        "Gen/Schema.v regenerated from pkg/document on every run: struct tags (writer schema) and, per struct type, the string literals of the reader functions that construct it (coverage); it records which names the reader reacts to, not what it does with them - that is what the correspondence observes",
        "Corr/SchemaCorr.v implicit: Stretch.FillRect and PrstGeom.AvLst are created by the reader together with their parent (content-free elements)",
        "harness/dump.go: reflection dump of Body.Elements; an empty property container counts as absent, xml:space of a text without content and namespace declarations are not data, the section settings stand last",
        "Model/XmlText.v treats bytes above 127 as opaque (valid UTF-8 of legal characters is assumed; the harness generates such strings)",
        "the order in which a custom MarshalXML writes children of different names is not modelled (the reader is insensitive to it)",
    ],
    "assumptions": ["formula paragraphs are outside the model's domain (read back under the element name of ordinary paragraphs); the oracle covers them"],
}

PROPS["C06"] = {
    "n": {"quick": 1600, "thorough": 30000},
    "per_shard": 60,
    "corr_targets": ["Corr/WalkCorr.vo"],
    "corr": "Corr/WalkCorr.v: Model.Open.open_pkg over the walker table of Gen/Walkers.v vs document.OpenFromMemory on generated packages: error or success, number of body paragraphs/tables/sections/bookmarks, rows, cells, cell paragraphs and nested tables read, and for each optional part whether its own content or the default is in use",
    "trusted_base": [
        "Gen/Walkers.v regenerated from pkg/document on every run: every function that takes an *xml.Decoder must be one token loop (first statement decoder.Token(), error return) or a dispatcher, else the table is untranslatable; per case only the reader function called is recorded",
        "the token stream handed to the model is the one encoding/xml delivers for the same bytes (the harness runs its own decoder); archive/zip decides whether the container is readable",
        "memory safety (nil dereference, index out of range) is not modelled except for the table grid: panics are searched for by exercising every opened document under recover(); a case that kills the process or exceeds 60 s is isolated in a child process",
        "Model/Table.v ensure_grid pads with width 0; the code takes the width of the cell",
    ],
    "assumptions": ["structural table edits are exercised on opened tables whose rows have equal length and no merges; on other tables they fall under the known findings of C09"],
}

PROPS["C16"] = {
    "n": {"quick": 1500, "thorough": 30000},
    "per_shard": 50,
    "corr_targets": ["Corr/TemplateCorr.vo", "Corr/EngineCorr.vo"],
    "corr": "Corr/EngineCorr.v: Model.Engine (blocks, inheritance chain) vs the engine on chains of up to five templates whose leaf is rendered; Corr/TemplateCorr.v: Model.Template.render_str (the engine's passes with the text re-lexed between the steps) vs TemplateEngine.RenderToDocument on generated templates and data, values with directive-like text included; per case also: the template text lexes to the tokens of its syntax tree, and the token-level pipeline of the theorem equals the text-level one (brace-free cases) and the reference (cases under the theorem's premises)",
    "trusted_base": [
        "Model/Template.v is hand-written from template.go (renderTemplate and its passes); the lexer lex mirrors the engine's regular expressions ({{\\w+}}, {{#if\\s+\\w+}}, {{#each\\s+\\w+}}, {{/if}}, {{/each}}, {{else}}, {{this}}, {{@index}}, {{@first}}, {{@last}})",
        "the link from the token-level pipeline to the text-level engine is proved for literal text and data without an opening brace (Proofs/TemplateLex.v) and validated per generated case otherwise",
        "blocks and inheritance are modelled in Model/Engine.v (theorems under C17) and exercised here by the inheritance stream (correspondence + reference: the root with the nearest overrides); image placeholders are not modelled",
        "{{this}} for an item that is a map prints Go's %v of the map in the engine and the empty string in the model; the workload does not use it",
        "field values that are placeholders of sibling fields are not generated (the engine's result then depends on Go's map iteration order)",
    ],
    "assumptions": ["global variable names and item field names are disjoint; variable names are not 'this' or 'else'"],
}

PROPS["C17"] = {
    "n": {"quick": 600, "thorough": 12000},
    "per_shard": 40,
    "race": True,
    "corr_targets": ["Corr/EngineCorr.vo"],
    "corr": "Corr/EngineCorr.v: Model.Engine.run (cache of immutable templates, inheritance chain, block replacement, the passes of Model/Template.v) vs a TemplateEngine driven through the same history of LoadTemplate / RenderToDocument / RemoveTemplate / ClearCache calls: every render result",
    "trusted_base": [
        "Model/Engine.v is hand-written from template.go (LoadTemplate, parseTemplate, renderTemplate); its block and extends scanners mirror the engine's regular expressions",
        "data races are not expressible in the model: concurrent plans (threads with their own names, shared read-only bases and a shared document template) run in a child process built with -race; the race detector's report is the observation",
        "document templates (LoadTemplateFromDocument / RenderTemplateToDocument) are covered by the oracle only: deep dump of the base document before and after every render, every render compared with a fresh engine",
    ],
    "assumptions": ["in the concurrent plans no thread calls ClearCache or rebinds a name another thread reads (the premise of C17_noninterference)"],
}

PROPS["C18"] = {
    "n": {"quick": 500, "thorough": 10000},
    "per_shard": 150,
    "corr_targets": ["Corr/DocTemplateCorr.vo"],
    "corr": "Corr/DocTemplateCorr.v: Model.DocTemplate.render_paragraph on the runs of a paragraph (formatting as atoms, text bytes, other content) vs the runs of the paragraph after TemplateEngine.RenderTemplateToDocument, read as formatted characters and anchors",
    "trusted_base": [
        "Model/DocTemplate.v is hand-written from template.go (renderParagraph, applyParaEdits); find_vars / find_conds mirror the engine's regular expressions on bytes",
        "Gen/CloneFields.v regenerated from template.go on every run (declared vs copied fields per clone function)",
        "whole documents (tables, nested tables, loop rows, merged cells, page breaks, paragraph/section formatting, headers/footers, pictures) are covered by the oracle: reference substitution on the deep dump of the base document at the granularity of single characters; every other part compared byte-wise",
    ],
    "assumptions": ["placeholders inside running-text loops ({{#each}} within one paragraph) are not generated"],
}

PROPS["C19"] = {
    "n": {"quick": 900, "thorough": 20000},
    "per_shard": 60,
    "corr_targets": ["Corr/MdRenderCorr.vo"],
    "corr": "Corr/MdRenderCorr.v: Model.MdRender.render on the syntax tree goldmark builds for the text (dumped by the harness with the converter's extensions) vs the paragraphs (style, rule, runs with text and format flags) and tables (cell texts, alignment) of the document Converter.ConvertString returns",
    "trusted_base": [
        "goldmark (the parser) is not modelled: its tree is an input of the model; harness/mdast.go configures it like markdown.NewConverter and resolves escapes and entities of text nodes the way renderer.go textValue does",
        "Model/MdRender.v is hand-written from renderer.go; headings are compared by text and style only (the direct formatting AddHeadingParagraph applies per level is not modelled); formulas are excluded from the correspondence (their display text is produced by a LaTeX rewriting that is not modelled)",
        "totality on arbitrary bytes under every option combination is searched (noise stream, recover), not proved",
    ],
    "assumptions": ["fidelity is judged with tables enabled; task-list check marks and ordered-list numbers are not rendered by the converter (the item text is)"],
}

PROPS["C20"] = {
    "n": {"quick": 1200, "thorough": 25000},
    "per_shard": 80,
    "corr_targets": ["Corr/MdWriteCorr.vo"],
    "corr": "Corr/MdWriteCorr.v: Model.MdWrite.write on the blocks of a generated document under the export options vs the string Exporter.ExportToString returns, byte for byte",
    "trusted_base": [
        "Model/MdWrite.v is hand-written from writer.go; texts are treated as bytes (strings.TrimSpace is modelled for ASCII white space)",
        "Gen/MdTables.v (the set of characters the exporter escapes) regenerated from pkg/markdown/writer.go on every run",
        "the round trip (ConvertString of the exported Markdown gives the same blocks, text and per-character formatting; a second export gives the same Markdown) goes through goldmark and is decided by the harness, not by a theorem",
        "the harness compares texts with runs of blanks as one blank and without blanks at block ends (Markdown cannot express them)",
    ],
    "assumptions": ["footnotes, metadata header and pictures are not generated"],
}
