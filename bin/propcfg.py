# per-property configuration for bin/check
PROPS = {
    "C12": {
        "n": {"quick": 1500, "thorough": 40000},
        "per_shard": 100,
        "corr_targets": ["Corr/PageCorr.vo"],
        "corr": "Corr/PageCorr.v: Model.Page.step vs SetPageSettings/GetPageSettings and the w:sectPr attributes after every call",
        "trusted_base": ["Gen/PageConsts.v regenerated from pkg/document/page.go on every run"],
        "assumptions": [
            "float64 arithmetic of mmToTwips/twipsToMM agrees with the exact rational model (checked: per-run sweep over twips values, and every generated history)",
            "save+open of section properties is modelled as the identity on (pgSz, pgMar, docGrid); the implementation's print/parse is exercised by the Reopen op",
        ],
    },
}
