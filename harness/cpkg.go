package main

// Package-level histories (C01 C02 C04 C10 C11): calls on up to three documents, template
// rendering between them, foreign packages as starting points, every Save observed with the
// independent reader, compared with Model.Pkg by coqc and judged by the property oracles.

import (
	"archive/zip"
	"bytes"
	"crypto/sha1"
	"encoding/json"
	"fmt"
	"image"
	"image/color"
	"image/gif"
	"image/jpeg"
	"image/png"
	"io"
	"os"
	"path"
	"path/filepath"
	"sort"
	"strconv"
	"strings"

	"github.com/zerx-lab/wordZero/pkg/document"
)

func init() {
	for _, p := range []string{"C01", "C02", "C04", "C10", "C11"} {
		p := p
		props[p] = func(cfg *runCfg) error { return runPkg(p, cfg) }
	}
}

type imgArg struct {
	Name   int    `json:"name"`
	Fmt    string `json:"fmt"`
	Atom   int    `json:"atom"`
	ByPath bool   `json:"by_path,omitempty"` // given as a file path, not as bytes
}

// dumpTemplateData: everything a caller can see of a template data object
func dumpTemplateData(d *document.TemplateData) string {
	if d == nil {
		return "nil"
	}
	var b strings.Builder
	var names []string
	for n := range d.Images {
		names = append(names, n)
	}
	sort.Strings(names)
	for _, n := range names {
		im := d.Images[n]
		if im == nil {
			fmt.Fprintf(&b, "[%s nil]", n)
			continue
		}
		h := sha1.Sum(im.Data)
		// every field, also ones this harness does not know by name (%+v prints unexported fields too)
		all := sha1.Sum([]byte(fmt.Sprintf("%+v", *im)))
		// (the configuration is reached through a pointer: its contents are dumped as well, sizes included)
		cfgJSON, _ := json.Marshal(im.Config)
		cfgDump := string(cfgJSON)
		fmt.Fprintf(&b, "[%s path=%q data=%d:%x alt=%q title=%q cfg=%s all=%x]", n, im.FilePath, len(im.Data), h[:4], im.AltText, im.Title, cfgDump, all[:4])
	}
	listsJSON, _ := json.Marshal(d.Lists)
	fmt.Fprintf(&b, " vars=%v lists=%d:%s:%s conds=%v", d.Variables, len(d.Lists), listsJSON, fmt.Sprintf("%T", anyItem(d.Lists)), d.Conditions)
	return b.String()
}

// errRefused: the library refused a call that the generator made on purpose with an argument it may refuse; the
// call is not part of the history
var errRefused = fmt.Errorf("call refused")

// dataPool: the caller's shared template data objects of the history that is running (by DataID), and what they
// looked like when they were built
var dataPool = map[int]*document.TemplateData{}
var dataPoolDump = map[int]string{}

type hop struct {
	Kind    string   `json:"kind"`
	R       int      `json:"r"`
	Src     int      `json:"src,omitempty"`
	Fmt     string   `json:"fmt,omitempty"`
	Atom    int      `json:"atom,omitempty"`
	Cell    bool     `json:"cell,omitempty"`
	Footer  bool     `json:"footer,omitempty"`
	HK      string   `json:"hk,omitempty"`
	Variant int      `json:"variant,omitempty"`
	Text    string   `json:"text,omitempty"`
	Name    int      `json:"name,omitempty"`
	FName   string   `json:"fname,omitempty"`
	WMM     int      `json:"wmm,omitempty"`
	HMM     int      `json:"hmm,omitempty"`
	Keep    bool     `json:"keep,omitempty"`
	WUm     int      `json:"w_um,omitempty"` // requested width / height of a body picture in micrometres (0 = not given)
	HUm     int      `json:"h_um,omitempty"`
	HasCfg  bool     `json:"has_cfg,omitempty"`
	CfgID   int      `json:"cfg_id,omitempty"`  // > 0: the caller's configuration object with this number (shared between additions)
	FmtStr  string   `json:"fmt_str,omitempty"` // a format string that is not one of the library's constants ("PNG", "Jpeg", "bmp", ""): the call may be refused
	DataID  int      `json:"data_id,omitempty"` // Render: > 0 = the caller's template data object with this number (shared between renderings)
	Imgs    []imgArg `json:"imgs,omitempty"`
	ToFile  bool     `json:"to_file,omitempty"`
	HV      int      `json:"hv,omitempty"` // Render: which value the variable hv (used by some header/footer texts) is given
}

// hvValues: values of the variable that header and footer texts may hold a placeholder for - spliced into raw XML
var hvValues = []string{"plain", "a<b&c>\"'", "ctl\x01only", "\x0bvt", "bad\xffutf", "", "{{hv}}", "]]>", "tab\there", "\ufffe", "é中"}

// ---- images --------------------------------------------------------------------------------

var imgCache = map[string][]byte{}
var atomByHash = map[[20]byte]int{}

func imageBytes(format string, atom int) []byte {
	key := fmt.Sprintf("%s/%d", format, atom)
	if b, ok := imgCache[key]; ok {
		return b
	}
	w, h := 2+atom%5, 2+(atom/5)%4
	img := image.NewRGBA(image.Rect(0, 0, w, h))
	for y := 0; y < h; y++ {
		for x := 0; x < w; x++ {
			img.Set(x, y, color.RGBA{uint8(atom * 37), uint8(atom*91 + x), uint8(atom*13 + y), 255})
		}
	}
	var buf bytes.Buffer
	switch format {
	case "png":
		png.Encode(&buf, img)
	case "jpeg":
		jpeg.Encode(&buf, img, &jpeg.Options{Quality: 90})
	case "gif":
		gif.Encode(&buf, img, nil)
	}
	// make the bytes unique per atom even if the encoder output coincides
	b := buf.Bytes()
	imgCache[key] = b
	atomByHash[sha1.Sum(b)] = atom
	return b
}

func atomOfBytes(b []byte) int {
	if a, ok := atomByHash[sha1.Sum(b)]; ok {
		return a
	}
	return 0
}

func imgDims(atom int) (int, int) { return 2 + atom%5, 2 + (atom/5)%4 }

// ---- foreign packages ----------------------------------------------------------------------

type fRel struct {
	ID, Kind, Target string
	External         bool
	Abs              bool // the target is written package-absolute ("/word/media/image1.png"), as several producers do
}

type foreignPkg struct {
	DocRels   []fRel
	Media     map[string]int    // part name -> atom (format from extension)
	Extra     map[string]string // part name -> content
	Overrides map[string]string
	Defaults  map[string]string
	BodyPics  []string    // relationship ids embedded by blips in the body
	HRefs     [][2]string // type, id
	FRefs     [][2]string
	Prefix    string // namespace prefix used for WordprocessingML in document.xml
	Texts     []string
	HdrText   map[string]string // header/footer part -> text
}

const wNS = "http://schemas.openxmlformats.org/wordprocessingml/2006/main"
const rNS = "http://schemas.openxmlformats.org/officeDocument/2006/relationships"

func xmlEsc(s string) string {
	var b bytes.Buffer
	xmlEscape(&b, s)
	return b.String()
}

func xmlEscape(b *bytes.Buffer, s string) {
	for _, r := range s {
		switch r {
		case '<':
			b.WriteString("&lt;")
		case '>':
			b.WriteString("&gt;")
		case '&':
			b.WriteString("&amp;")
		case '"':
			b.WriteString("&quot;")
		default:
			b.WriteRune(r)
		}
	}
}

func (f *foreignPkg) build() []byte {
	var zb bytes.Buffer
	zw := zip.NewWriter(&zb)
	add := func(name string, data []byte) {
		w, _ := zw.Create(name)
		w.Write(data)
	}
	p := f.Prefix
	var doc bytes.Buffer
	doc.WriteString(`<?xml version="1.0" encoding="UTF-8" standalone="yes"?>` + "\n")
	fmt.Fprintf(&doc, `<%s:document xmlns:%s="%s" xmlns:r="%s" xmlns:wp="http://schemas.openxmlformats.org/drawingml/2006/wordprocessingDrawing" xmlns:a="http://schemas.openxmlformats.org/drawingml/2006/main" xmlns:pic="http://schemas.openxmlformats.org/drawingml/2006/picture"><%s:body>`, p, p, wNS, rNS, p)
	for _, t := range f.Texts {
		fmt.Fprintf(&doc, `<%s:p><%s:r><%s:t xml:space="preserve">%s</%s:t></%s:r></%s:p>`, p, p, p, xmlEsc(t), p, p, p)
	}
	for i, id := range f.BodyPics {
		fmt.Fprintf(&doc, `<%s:p><%s:r><%s:drawing><wp:inline distT="0" distB="0" distL="0" distR="0"><wp:extent cx="952500" cy="952500"/><wp:docPr id="%d" name="Picture %d"/><a:graphic><a:graphicData uri="http://schemas.openxmlformats.org/drawingml/2006/picture"><pic:pic><pic:nvPicPr><pic:cNvPr id="%d" name="p%d"/><pic:cNvPicPr/></pic:nvPicPr><pic:blipFill><a:blip r:embed="%s"/><a:stretch><a:fillRect/></a:stretch></pic:blipFill><pic:spPr><a:xfrm><a:off x="0" y="0"/><a:ext cx="952500" cy="952500"/></a:xfrm><a:prstGeom prst="rect"><a:avLst/></a:prstGeom></pic:spPr></pic:pic></a:graphicData></a:graphic></wp:inline></%s:drawing></%s:r></%s:p>`,
			p, p, p, i+1, i+1, i+1, i+1, id, p, p, p)
	}
	fmt.Fprintf(&doc, `<%s:sectPr>`, p)
	for _, h := range f.HRefs {
		fmt.Fprintf(&doc, `<%s:headerReference %s:type="%s" r:id="%s"/>`, p, p, h[0], h[1])
	}
	for _, h := range f.FRefs {
		fmt.Fprintf(&doc, `<%s:footerReference %s:type="%s" r:id="%s"/>`, p, p, h[0], h[1])
	}
	fmt.Fprintf(&doc, `<%s:pgSz %s:w="11906" %s:h="16838"/></%s:sectPr></%s:body></%s:document>`, p, p, p, p, p, p)

	var ct bytes.Buffer
	ct.WriteString(`<?xml version="1.0" encoding="UTF-8" standalone="yes"?>` + "\n" + `<Types xmlns="http://schemas.openxmlformats.org/package/2006/content-types">`)
	for _, e := range sortedStrKeys(f.Defaults) {
		fmt.Fprintf(&ct, `<Default Extension="%s" ContentType="%s"/>`, e, f.Defaults[e])
	}
	for _, n := range sortedStrKeys(f.Overrides) {
		fmt.Fprintf(&ct, `<Override PartName="/%s" ContentType="%s"/>`, n, f.Overrides[n])
	}
	ct.WriteString(`</Types>`)

	var dr bytes.Buffer
	dr.WriteString(`<?xml version="1.0" encoding="UTF-8" standalone="yes"?>` + "\n" + `<Relationships xmlns="http://schemas.openxmlformats.org/package/2006/relationships">`)
	for _, r := range f.DocRels {
		mode := ""
		if r.External {
			mode = ` TargetMode="External"`
		}
		tgt := r.Target
		if r.Abs && !r.External {
			tgt = "/" + path.Clean("word/"+tgt)
		}
		fmt.Fprintf(&dr, `<Relationship Id="%s" Type="%s%s" Target="%s"%s/>`, r.ID, relBase, r.Kind, xmlEsc(tgt), mode)
	}
	dr.WriteString(`</Relationships>`)

	add("[Content_Types].xml", ct.Bytes())
	add("_rels/.rels", []byte(`<?xml version="1.0" encoding="UTF-8" standalone="yes"?>`+"\n"+`<Relationships xmlns="http://schemas.openxmlformats.org/package/2006/relationships"><Relationship Id="rId1" Type="`+relBase+`officeDocument" Target="word/document.xml"/></Relationships>`))
	add("word/document.xml", doc.Bytes())
	add("word/_rels/document.xml.rels", dr.Bytes())
	for _, n := range sortedIntKeys(f.Media) {
		ext := strings.TrimPrefix(filepath.Ext(n), ".")
		fm := map[string]string{"png": "png", "jpeg": "jpeg", "jpg": "jpeg", "gif": "gif"}[ext]
		if fm == "" {
			fm = "png"
		}
		add(n, imageBytes(fm, f.Media[n]))
	}
	for _, n := range sortedStrKeys(f.Extra) {
		add(n, []byte(f.Extra[n]))
	}
	zw.Close()
	return zb.Bytes()
}

func sortedIntKeys(m map[string]int) []string {
	var ks []string
	for k := range m {
		ks = append(ks, k)
	}
	sort.Strings(ks)
	return ks
}

func hfPartXML(kind, text string) string {
	root := "hdr"
	if kind == "footer" {
		root = "ftr"
	}
	return fmt.Sprintf(`<?xml version="1.0" encoding="UTF-8" standalone="yes"?>`+"\n"+`<w:%s xmlns:w="%s" xmlns:r="%s"><w:p><w:r><w:t>%s</w:t></w:r></w:p></w:%s>`, root, wNS, rNS, xmlEsc(text), root)
}

// genForeign builds a random well-formed package "produced by another application".
func genForeign(r *rng) *foreignPkg {
	f := &foreignPkg{Media: map[string]int{}, Extra: map[string]string{}, Overrides: map[string]string{}, Defaults: map[string]string{}, HdrText: map[string]string{}}
	f.Prefix = []string{"w", "w", "w", "ns0", "x"}[r.intn(5)]
	f.Defaults["rels"] = "application/vnd.openxmlformats-package.relationships+xml"
	f.Defaults["xml"] = "application/xml"
	f.Overrides["word/document.xml"] = "application/vnd.openxmlformats-officedocument.wordprocessingml.document.main+xml"
	for i, n := 0, r.rangeI(1, 3); i < n; i++ {
		f.Texts = append(f.Texts, fmt.Sprintf("foreign text %d <&> ", r.intn(1000)))
	}
	usedIDs := map[string]bool{}
	newID := func() string {
		for {
			var id string
			switch r.pick([]int{55, 45}) {
			case 0:
				id = fmt.Sprintf("rId%d", r.rangeI(1, 14))
			default:
				id = foreignRidString(r.rangeI(1, 40))
			}
			if !usedIDs[id] {
				usedIDs[id] = true
				return id
			}
		}
	}
	// styles part and relationship (position and id arbitrary; sometimes absent)
	type pending struct{ rel fRel }
	var rels []fRel
	hasStyles := r.chance(85)
	if hasStyles {
		f.Extra["word/styles.xml"] = `<?xml version="1.0" encoding="UTF-8" standalone="yes"?>` + "\n" + `<w:styles xmlns:w="` + wNS + `"><w:style w:type="paragraph" w:default="1" w:styleId="Normal"><w:name w:val="Normal"/></w:style></w:styles>`
		f.Overrides["word/styles.xml"] = "application/vnd.openxmlformats-officedocument.wordprocessingml.styles+xml"
		id := newID()
		if r.chance(50) {
			id = "rId1"
			if usedIDs[id] {
				id = newID()
			}
			usedIDs[id] = true
		}
		rels = append(rels, fRel{ID: id, Kind: "styles", Target: "styles.xml"})
	}
	// media + image relationships (+ body pictures)
	mediaNames := []string{"image1.png", "image2.jpeg", "image7.png", "image01.jpeg", "image3.gif", "image12.jpg", "image-3.gif", "image+4.png", "odd1.png", "odd2.jpeg", "image5.tar.gz", "image0.png", "image99999999999999.png"}
	nMedia := r.pick([]int{25, 30, 25, 20})
	atom := 100 + r.intn(50)
	for i := 0; i < nMedia; i++ {
		n := "word/media/" + mediaNames[r.intn(len(mediaNames))]
		if _, dup := f.Media[n]; dup {
			continue
		}
		atom++
		f.Media[n] = atom
		ext := strings.TrimPrefix(filepath.Ext(n), ".")
		if _, ok := f.Defaults[ext]; !ok {
			f.Defaults[ext] = map[string]string{"png": "image/png", "jpeg": "image/jpeg", "jpg": "image/jpeg", "gif": "image/gif", "gz": "application/gzip"}[ext]
			if alt, ok := map[string]string{"png": "image/x-png", "jpeg": "image/pjpeg", "jpg": "image/jpg", "gif": "image/x-gif"}[ext]; ok && r.chance(25) {
				f.Defaults[ext] = alt // a content type another producer uses for the extension: the package's, to be kept
			}
		}
		if r.chance(80) {
			id := newID()
			rels = append(rels, fRel{ID: id, Kind: "image", Target: strings.TrimPrefix(n, "word/")})
			if r.chance(70) {
				f.BodyPics = append(f.BodyPics, id)
			}
		}
	}
	// other parts: theme, fonts, custom xml, settings, numbering
	for i, n := 0, r.rangeI(0, 3); i < n; i++ {
		a := r.rangeI(1, 30)
		ext := []string{"xml", "xml", "bin", "odttf"}[r.intn(4)]
		name := foreignPartString(a, ext)
		if _, dup := f.Extra[name]; dup {
			continue
		}
		if ext == "xml" {
			f.Extra[name] = fmt.Sprintf(`<?xml version="1.0"?><x:thing xmlns:x="urn:x"><x:v n="%d"/></x:thing>`, a)
			f.Overrides[name] = "application/vnd.example+xml"
		} else {
			f.Extra[name] = fmt.Sprintf("\x00\x01binary%d", a)
			f.Defaults[ext] = "application/octet-stream"
		}
		if r.chance(75) {
			rels = append(rels, fRel{ID: newID(), Kind: otherKinds[1+r.intn(len(otherKinds)-1)], Target: strings.TrimPrefix(name, "word/")})
		}
	}
	for i, n := 0, r.pick([]int{50, 30, 20}); i < n; i++ {
		rels = append(rels, fRel{ID: newID(), Kind: "hyperlink", Target: fmt.Sprintf("https://example.org/%d?a=1&b=2", r.intn(100)), External: true})
	}
	// numbering and notes parts the way other producers write them: the WordprocessingML namespace under the usual
	// prefix, under another prefix, or as the default namespace
	nsForms := func(root, inner string) string {
		bom := ""
		if r.chance(15) {
			bom = "\xef\xbb\xbf" // a byte order mark, as some producers write at the start of every part
		}
		switch r.intn(4) {
		case 0:
			q := "ns0"
			return bom + `<?xml version="1.0"?><` + q + `:` + root + ` xmlns:` + q + `="` + wNS + `">` + strings.ReplaceAll(inner, "w:", q+":") + `</` + q + `:` + root + `>`
		case 1:
			in := strings.ReplaceAll(strings.ReplaceAll(inner, "<w:", "<"), "</w:", "</")
			return bom + `<?xml version="1.0"?><` + root + ` xmlns="` + wNS + `" xmlns:w="` + wNS + `">` + in + `</` + root + `>`
		}
		return bom + `<?xml version="1.0"?><w:` + root + ` xmlns:w="` + wNS + `">` + inner + `</w:` + root + `>`
	}
	if r.chance(30) {
		f.Extra["word/numbering.xml"] = nsForms("numbering", `<w:abstractNum w:abstractNumId="5"><w:lvl w:ilvl="0"><w:start w:val="1"/><w:numFmt w:val="decimal"/><w:lvlText w:val="%1)"/></w:lvl></w:abstractNum><w:num w:numId="9"><w:abstractNumId w:val="5"/></w:num>`)
		f.Overrides["word/numbering.xml"] = "application/vnd.openxmlformats-officedocument.wordprocessingml.numbering+xml"
		rels = append(rels, fRel{ID: newID(), Kind: "numbering", Target: "numbering.xml"})
	}
	for _, kind := range []string{"footnote", "endnote"} {
		if !r.chance(20) {
			continue
		}
		name := "word/" + kind + "s.xml"
		f.Extra[name] = nsForms(kind+"s", `<w:`+kind+` w:type="separator" w:id="-1"><w:p><w:r><w:separator/></w:r></w:p></w:`+kind+`><w:`+kind+` w:id="1"><w:p><w:r><w:t>foreign `+kind+`</w:t></w:r></w:p></w:`+kind+`>`)
		f.Overrides[name] = "application/vnd.openxmlformats-officedocument.wordprocessingml." + kind + "s+xml"
		rels = append(rels, fRel{ID: newID(), Kind: kind + "s", Target: kind + "s.xml"})
	}
	if r.chance(25) {
		f.Extra["word/settings.xml"] = `<?xml version="1.0"?><w:settings xmlns:w="` + wNS + `"><w:zoom w:percent="120"/></w:settings>`
		f.Overrides["word/settings.xml"] = "application/vnd.openxmlformats-officedocument.wordprocessingml.settings+xml"
		rels = append(rels, fRel{ID: newID(), Kind: "settings", Target: "settings.xml"})
	}
	// headers / footers, Word style: header1.xml ... with their own relationships to media
	for _, kind := range []string{"header", "footer"} {
		for _, typ := range []string{"default", "first", "even"} {
			if !r.chance(25) {
				continue
			}
			fn := map[string]string{"default": "1", "first": "first", "even": "even"}[typ]
			if r.chance(15) {
				// a name the library uses for another kind (Word numbers its header parts as it likes: header1.xml may
				// well be the first-page header)
				fn = map[string]string{"default": "even", "first": "1", "even": "1"}[typ]
				if _, dup := f.Extra["word/"+kind+fn+".xml"]; dup {
					continue
				}
			} else if r.chance(30) {
				fn = fmt.Sprintf("%d", r.rangeI(2, 4)) // header2.xml: a name the library does not use
				if _, dup := f.Extra["word/"+kind+fn+".xml"]; dup {
					continue
				}
			}
			name := "word/" + kind + fn + ".xml"
			text := fmt.Sprintf("%s-%s-%d", kind, typ, r.intn(1000))
			f.Extra[name] = hfPartXML(kind, text)
			f.HdrText[name] = text
			f.Overrides[name] = "application/vnd.openxmlformats-officedocument.wordprocessingml." + kind + "+xml"
			id := newID()
			rels = append(rels, fRel{ID: id, Kind: kind, Target: kind + fn + ".xml"})
			if kind == "header" {
				f.HRefs = append(f.HRefs, [2]string{typ, id})
			} else {
				f.FRefs = append(f.FRefs, [2]string{typ, id})
			}
			if r.chance(40) {
				// the header has its own relationships part pointing at a logo
				logo := fmt.Sprintf("word/media/image%d.png", r.rangeI(1, 3))
				if _, ok := f.Media[logo]; !ok {
					atom++
					f.Media[logo] = atom
					f.Defaults["png"] = "image/png"
				}
				f.Extra["word/_rels/"+kind+fn+".xml.rels"] = `<?xml version="1.0"?><Relationships xmlns="http://schemas.openxmlformats.org/package/2006/relationships"><Relationship Id="rId1" Type="` + relBase + `image" Target="` + strings.TrimPrefix(logo, "word/") + `"/></Relationships>`
			}
		}
	}
	// one relationship used by two references (the same header for default and even pages, say)
	if len(f.HRefs) == 1 && r.chance(35) {
		other := map[string]string{"default": "even", "first": "default", "even": "first"}[f.HRefs[0][0]]
		f.HRefs = append(f.HRefs, [2]string{other, f.HRefs[0][1]})
	}
	if len(f.FRefs) == 1 && r.chance(35) {
		other := map[string]string{"default": "even", "first": "default", "even": "first"}[f.FRefs[0][0]]
		f.FRefs = append(f.FRefs, [2]string{other, f.FRefs[0][1]})
	}
	// package-absolute targets: all relationships of the package (some producers write only those), or some
	absAll := r.chance(10)
	for i := range rels {
		if !rels[i].External && (absAll || r.chance(8)) {
			rels[i].Abs = true
		}
	}
	// shuffle the relationship order
	for i := len(rels) - 1; i > 0; i-- {
		j := r.intn(i + 1)
		rels[i], rels[j] = rels[j], rels[i]
	}
	f.DocRels = rels
	return f
}

// ---- running one history on the implementation -------------------------------------------------

type docState struct {
	doc     *document.Document
	table   *document.Table
	images  []int             // atoms of every image the document must show (multiset)
	hf      map[string]string // "header/default" -> latest payload text
	foreign map[string][]byte // parts of the opened foreign package, by name
	touched map[string]bool   // parts that calls made so far are entitled to rewrite
	frels   []RelV            // document relationships of the foreign package
	extents map[int][2]int64  // atom -> expected extent (cx, cy) for images added with a size config
	ptexts  []string          // placeholder / plain paragraph texts added (for text presence)
	phs     []int             // image placeholders present in the body
	extIn   map[int]extIn     // atom -> pixel size and configuration the body picture was added with
}

// extIn: what decides the displayed size of a body picture
type extIn struct {
	PW, PH   int
	HasCfg   bool
	WUm, HUm int
	Keep     bool
}

// casePool: the caller's shared size configurations of the history that is running (by CfgID)
var casePool = map[int]*document.ImageConfig{}

// extObs: (inputs, observed extent) of body pictures found in saved documents, for the correspondence of M-EXTENT
var extObs []string
var extSeen = map[string]bool{}

// expectedExtent: the sizing rule in exact arithmetic; ok = false when the rule leaves the case open (one dimension
// without the aspect-ratio flag)
func expectedExtent(in extIn) (cx, cy int64, ok bool) {
	dx, dy := int64(in.PW)*9525, int64(in.PH)*9525
	if !in.HasCfg {
		return dx, dy, true
	}
	switch {
	case in.WUm > 0 && in.HUm > 0:
		return int64(in.WUm) * 36, int64(in.HUm) * 36, true
	case in.WUm > 0 && in.Keep:
		cx = int64(in.WUm) * 36
		return cx, cx * int64(in.PH) / int64(in.PW), true
	case in.HUm > 0 && in.Keep:
		cy = int64(in.HUm) * 36
		return cy * int64(in.PW) / int64(in.PH), cy, true
	case in.WUm <= 0 && in.HUm <= 0:
		return dx, dy, true
	}
	return dx, dy, false
}

func (s *docState) clone(d *document.Document) *docState {
	n := &docState{doc: d, images: append([]int{}, s.images...), hf: map[string]string{}, foreign: s.foreign, touched: map[string]bool{}, frels: s.frels, extents: map[int][2]int64{}, extIn: map[int]extIn{}}
	for k, v := range s.extIn {
		n.extIn[k] = v
	}
	for k, v := range s.hf {
		n.hf[k] = v
	}
	for k, v := range s.touched {
		n.touched[k] = v
	}
	for k, v := range s.extents {
		n.extents[k] = v
	}
	return n
}

var hfTypes = map[string]document.HeaderFooterType{"default": document.HeaderFooterTypeDefault, "first": document.HeaderFooterTypeFirst, "even": document.HeaderFooterTypeEven}
var hfFile = map[string]string{"default": "1", "first": "first", "even": "even"}
var fmtOf = map[string]document.ImageFormat{"png": document.ImageFormatPNG, "jpeg": document.ImageFormatJPEG, "gif": document.ImageFormatGIF}

func saveBytes(d *document.Document, toFile bool, dir string) ([]byte, error) {
	if !toFile {
		return d.ToBytes()
	}
	p := filepath.Join(dir, "s.docx")
	if err := d.Save(p); err != nil {
		return nil, err
	}
	defer os.Remove(p)
	return os.ReadFile(p)
}

type saveObs struct {
	Step int
	R    int
	View *PkgView
	Raw  []byte
}

// applyHop runs one call; err != nil means the library refused a call the generator considers valid.
func applyHop(regs []*docState, h hop, tmp string) (obs *saveObs, err error) {
	defer func() {
		if p := recover(); p != nil {
			err = fmt.Errorf("panic: %v", p)
		}
	}()
	s := regs[h.R]
	switch h.Kind {
	case "AddImage":
		data := imageBytes(h.Fmt, h.Atom)
		w, ht := imgDims(h.Atom)
		var cfg *document.ImageConfig
		if h.HasCfg {
			mk := func() *document.ImageConfig {
				return &document.ImageConfig{Size: &document.ImageSize{Width: float64(h.WUm) / 1000, Height: float64(h.HUm) / 1000, KeepAspectRatio: h.Keep}}
			}
			if h.CfgID > 0 {
				if casePool[h.CfgID] == nil {
					casePool[h.CfgID] = mk()
				}
				cfg = casePool[h.CfgID]
			} else {
				cfg = mk()
			}
		}
		if h.Cell {
			if s.table == nil {
				t, e := s.doc.AddTable(&document.TableConfig{Rows: 1, Cols: 2, Width: 5000})
				if e != nil {
					return nil, e
				}
				s.table = t
			}
			_, e := s.doc.AddCellImage(s.table, 0, 0, &document.CellImageConfig{Data: data, Width: float64(h.WMM)})
			if e != nil {
				return nil, e
			}
		} else {
			format := fmtOf[h.Fmt]
			if h.FmtStr != "" {
				format = document.ImageFormat(h.FmtStr)
			}
			if h.FmtStr == "" && h.Atom%5 == 0 {
				// by way of a file: format and pixel size are read off the bytes (the file name has the caller's extension,
				// which need not match the format)
				fn := filepath.Join(tmp, "in_"+filepath.Base(h.FName))
				if e := os.WriteFile(fn, data, 0644); e != nil {
					return nil, e
				}
				if _, e := s.doc.AddImageFromFile(fn, cfg); e != nil {
					return nil, e
				}
			} else if _, e := s.doc.AddImageFromData(data, h.FName, format, w, ht, cfg); e != nil {
				if h.FmtStr != "" {
					return nil, errRefused
				}
				return nil, e
			}
			if s.extIn != nil {
				s.extIn[h.Atom] = extIn{PW: w, PH: ht, HasCfg: h.HasCfg, WUm: h.WUm, HUm: h.HUm, Keep: h.Keep}
			}
		}
		s.images = append(s.images, h.Atom)
	case "AddHF":
		kind := "header"
		if h.Footer {
			kind = "footer"
		}
		var e error
		switch {
		case !h.Footer && h.Variant == 0:
			e = s.doc.AddHeader(hfTypes[h.HK], h.Text)
		case !h.Footer && h.Variant == 1:
			e = s.doc.AddHeaderWithPageNumber(hfTypes[h.HK], h.Text, (len(h.HK)+len(h.Text))%2 == 0)
		case !h.Footer:
			e = s.doc.AddFormattedHeader(hfTypes[h.HK], &document.HeaderFooterConfig{Text: h.Text, Format: &document.TextFormat{Bold: true}})
		case h.Variant == 0:
			e = s.doc.AddFooter(hfTypes[h.HK], h.Text)
		case h.Variant == 1:
			e = s.doc.AddFooterWithPageNumber(hfTypes[h.HK], h.Text, (len(h.HK)+len(h.Text))%2 == 1)
		default:
			e = s.doc.AddFormattedFooter(hfTypes[h.HK], &document.HeaderFooterConfig{Text: h.Text, Format: &document.TextFormat{Italic: true}})
		}
		if e != nil {
			return nil, e
		}
		s.hf[kind+"/"+h.HK] = h.Text
		s.touched["word/"+kind+hfFile[h.HK]+".xml"] = true
	case "AddList":
		s.doc.AddListItem(h.Text, &document.ListConfig{Type: document.ListTypeNumber, StartNumber: 1 + h.Variant})
		s.touched["word/numbering.xml"] = true
	case "AddNote":
		var e error
		if h.Footer {
			e = s.doc.AddEndnote(h.Text, "note "+h.Text)
			s.touched["word/endnotes.xml"] = true
		} else {
			e = s.doc.AddFootnote(h.Text, "note "+h.Text)
			s.touched["word/footnotes.xml"] = true
		}
		if e != nil {
			return nil, e
		}
	case "SetNoteCfg":
		if e := s.doc.SetFootnoteConfig(nil); e != nil {
			return nil, e
		}
		s.touched["word/settings.xml"] = true
	case "SetProps":
		if e := s.doc.SetTitle(h.Text); e != nil {
			return nil, e
		}
		s.touched["docProps/core.xml"], s.touched["docProps/app.xml"] = true, true
	case "AddPlaceholder":
		s.doc.AddParagraph(fmt.Sprintf("{{#image img%d}}", h.Name))
		s.phs = append(s.phs, h.Name)
	case "AddPara":
		s.doc.AddParagraph(h.Text)
	case "SaveReopen":
		b, e := saveBytes(s.doc, h.ToFile, tmp)
		if e != nil {
			return nil, e
		}
		nd, e := document.OpenFromMemory(io.NopCloser(bytes.NewReader(b)))
		if e != nil {
			return nil, fmt.Errorf("reopen: %v", e)
		}
		s.doc, s.table = nd, nil
	case "Render":
		src := regs[h.Src]
		te := document.NewTemplateEngine()
		if _, e := te.LoadTemplateFromDocument("t", src.doc); e != nil {
			return nil, e
		}
		have := map[int]imgArg{}
		for _, a := range h.Imgs {
			have[a.Name] = a
		}
		build := func() *document.TemplateData {
			data := document.NewTemplateData()
			for _, a := range h.Imgs {
				if a.ByPath {
					fn := filepath.Join(tmp, fmt.Sprintf("tplimg%d.%s", a.Atom, a.Fmt))
					os.WriteFile(fn, imageBytes(a.Fmt, a.Atom), 0644)
					data.SetImage(fmt.Sprintf("img%d", a.Name), fn, nil)
				} else {
					data.SetImageFromData(fmt.Sprintf("img%d", a.Name), imageBytes(a.Fmt, a.Atom), nil)
				}
			}
			// (as a plain string, or as a value of a named string type: the text that lands in the header is the same)
			if h.HV%3 == 1 {
				data.SetVariable("hv", pkgNamedString(hvValues[h.HV%len(hvValues)]))
			} else {
				data.SetVariable("hv", hvValues[h.HV%len(hvValues)])
			}
			return data
		}
		var data *document.TemplateData
		if h.DataID > 0 {
			if dataPool[h.DataID] == nil {
				dataPool[h.DataID] = build()
				dataPoolDump[h.DataID] = dumpTemplateData(dataPool[h.DataID])
			}
			data = dataPool[h.DataID]
		} else {
			data = build()
		}
		before := dumpTemplateData(data)
		nd, e := te.RenderTemplateToDocument("t", data)
		if e != nil {
			return nil, e
		}
		if after := dumpTemplateData(data); after != before {
			return nil, fmt.Errorf("data_modified: rendering changed the template data it was given: %s -> %s", before, after)
		}
		ns := src.clone(nd)
		hvNow := hvValues[h.HV%len(hvValues)]
		if h.DataID > 0 {
			if v, ok := data.Variables["hv"]; ok {
				hvNow = fmt.Sprint(v) // a shared data object keeps the value it was built with
			}
		}
		for k, v := range ns.hf {
			ns.hf[k] = strings.ReplaceAll(v, "{{hv}}", hvNow)
		}
		for _, name := range src.phs {
			if a, ok := have[name]; ok {
				ns.images = append(ns.images, a.Atom)
			}
		}
		regs[h.R] = ns
	case "Save":
		b, e := saveBytes(s.doc, h.ToFile, tmp)
		if e != nil {
			return nil, e
		}
		v, e := readPackage(b)
		if e != nil {
			return &saveObs{R: h.R, Raw: b}, fmt.Errorf("unreadable package: %v", e)
		}
		return &saveObs{R: h.R, View: v, Raw: b}, nil
	}
	return nil, nil
}

// ---- oracle -------------------------------------------------------------------------------

func oraclePkg(prop string, s *docState, v *PkgView) []string {
	var bad []string
	switch prop {
	case "C01":
		bad = v.checkC01()
	case "C02":
		bad = v.checkC02()
	case "C04":
		bad = checkC04(s, v)
	case "C10":
		bad = checkC10(s, v)
	case "C11":
		bad = checkC11(s, v)
	}
	return bad
}

var regenerated = map[string]bool{"word/document.xml": true, "[Content_Types].xml": true, "_rels/.rels": true, "word/_rels/document.xml.rels": true}

func checkC04(s *docState, v *PkgView) []string {
	var bad []string
	if s.foreign == nil {
		return nil
	}
	fv, _ := readPackage(foreignZip(s.foreign))
	for name, data := range s.foreign {
		if regenerated[name] || s.touched[name] {
			continue
		}
		got, ok := v.Parts[name]
		if !ok {
			bad = append(bad, "passthrough: part "+name+" of the opened package is missing")
			continue
		}
		if !bytes.Equal(got, data) {
			what := "passthrough"
			if strings.HasPrefix(name, "word/media/") {
				what = "media_not_overwritten"
			}
			bad = append(bad, what+": part "+name+" of the opened package was changed")
		}
		if fv != nil && fv.contentTypeOf(name) != v.contentTypeOf(name) {
			bad = append(bad, fmt.Sprintf("content_type_kept: part %s had %q, now %q", name, fv.contentTypeOf(name), v.contentTypeOf(name)))
		}
	}
	have := map[string]RelV{}
	for _, r := range v.Rels["word/_rels/document.xml.rels"] {
		have[r.ID] = r
	}
	for _, r := range s.frels {
		g, ok := have[r.ID]
		if !ok {
			bad = append(bad, fmt.Sprintf("rels_kept: relationship %s (%s) is gone", r.ID, relKind(r.Type)))
		} else if sameTargetSpelling(g) != sameTargetSpelling(r) {
			bad = append(bad, fmt.Sprintf("rels_kept: relationship %s changed from %+v to %+v", r.ID, r, g))
		}
	}
	return bad
}

// sameTargetSpelling: the target of an internal relationship is a reference resolved against the main part -
// "/word/styles.xml" and "styles.xml" are the same target; external targets are compared as written
func sameTargetSpelling(r RelV) RelV {
	if r.Mode != "External" {
		r.Target = resolveTarget("word/_rels/document.xml.rels", r.Target)
	}
	return r
}

var foreignZipCache = map[*byte][]byte{}

func foreignZip(parts map[string][]byte) []byte {
	var zb bytes.Buffer
	zw := zip.NewWriter(&zb)
	var names []string
	for n := range parts {
		names = append(names, n)
	}
	sort.Strings(names)
	for _, n := range names {
		w, _ := zw.Create(n)
		w.Write(parts[n])
	}
	zw.Close()
	return zb.Bytes()
}

func checkC10(s *docState, v *PkgView) []string {
	var bad []string
	if v.Doc == nil {
		return []string{"main part unreadable"}
	}
	docRels := map[string][]RelV{}
	for _, r := range v.Rels["word/_rels/document.xml.rels"] {
		docRels[r.ID] = append(docRels[r.ID], r)
	}
	var shown []int
	v.Doc.walk(func(n *XNode) {
		if n.Name != "blip" {
			return
		}
		e := n.Attrs["embed"]
		rs := docRels[e]
		if len(rs) != 1 {
			bad = append(bad, fmt.Sprintf("pic_resolves: picture embed %s resolves to %d relationships", e, len(rs)))
			return
		}
		if relKind(rs[0].Type) != "image" {
			bad = append(bad, fmt.Sprintf("pic_resolves: picture embed %s is a %s relationship", e, relKind(rs[0].Type)))
			return
		}
		data, ok := v.Parts[resolveTarget("word/_rels/document.xml.rels", rs[0].Target)]
		if !ok {
			bad = append(bad, fmt.Sprintf("pic_resolves: picture %s -> %s is not a part", e, rs[0].Target))
			return
		}
		shown = append(shown, atomOfBytes(data))
	})
	want := append([]int{}, s.images...)
	sort.Ints(want)
	sort.Ints(shown)
	if fmt.Sprint(want) != fmt.Sprint(shown) {
		bad = append(bad, fmt.Sprintf("pic_bytes: pictures show image atoms %v, images given %v", shown, want))
	}
	// extents: every drawing's wp:extent equals its a:ext, and follows the sizing rule where requested
	for _, d := range v.Doc.find("drawing") {
		ext := d.find("extent")
		aext := d.find("ext")
		if bl := d.find("blip"); len(bl) == 1 && len(ext) == 1 {
			if rs := docRels[bl[0].Attrs["embed"]]; len(rs) == 1 {
				if data, ok := v.Parts[resolveTarget("word/_rels/document.xml.rels", rs[0].Target)]; ok {
					if in, known := s.extIn[atomOfBytes(data)]; known {
						cx, _ := strconv.ParseInt(ext[0].Attrs["cx"], 10, 64)
						cy, _ := strconv.ParseInt(ext[0].Attrs["cy"], 10, 64)
						wx, wy, decided := expectedExtent(in)
						// the derived dimension follows the given one as displayed (floating point, truncated)
						if in.HasCfg && in.Keep && in.WUm > 0 && in.HUm <= 0 && abs64(cx-wx) <= 1 {
							wx, wy = cx, cx*int64(in.PH)/int64(in.PW)
						} else if in.HasCfg && in.Keep && in.HUm > 0 && in.WUm <= 0 && abs64(cy-wy) <= 1 {
							wx, wy = cy*int64(in.PW)/int64(in.PH), cy
						}
						if decided && (abs64(cx-wx) > 1 || abs64(cy-wy) > 1) {
							bad = append(bad, fmt.Sprintf("extent_rule: picture of %dx%d pixels added with %s shows %d x %d EMU, the sizing rule gives %d x %d", in.PW, in.PH, in.describe(), cx, cy, wx, wy))
						}
						key := fmt.Sprintf("mkCase %d %d %s %d %d", in.PW, in.PH, in.coq(), cx, cy)
						if !extSeen[key] {
							extSeen[key] = true
							extObs = append(extObs, key)
						}
					}
				}
			}
		}
		if len(ext) == 1 && len(aext) >= 1 {
			last := aext[len(aext)-1]
			if ext[0].Attrs["cx"] != last.Attrs["cx"] || ext[0].Attrs["cy"] != last.Attrs["cy"] {
				bad = append(bad, fmt.Sprintf("extent_consistent: wp:extent %s x %s but a:ext %s x %s", ext[0].Attrs["cx"], ext[0].Attrs["cy"], last.Attrs["cx"], last.Attrs["cy"]))
			}
		}
	}
	return bad
}

func abs64(x int64) int64 {
	if x < 0 {
		return -x
	}
	return x
}

func (in extIn) describe() string {
	if !in.HasCfg {
		return "no size configuration"
	}
	return fmt.Sprintf("width %.3f mm, height %.3f mm, keep aspect ratio %v", float64(in.WUm)/1000, float64(in.HUm)/1000, in.Keep)
}

func (in extIn) coq() string {
	if !in.HasCfg {
		return "None"
	}
	return fmt.Sprintf("(Some (mkSize %d %d %s))", in.WUm, in.HUm, cBool(in.Keep))
}

// xmlCharNorm: characters that XML 1.0 cannot represent are written as U+FFFD by encoding/xml
func xmlCharNorm(s string) string {
	var b strings.Builder
	for _, r := range s {
		if r == 0x9 || r == 0xA || r == 0xD || (r >= 0x20 && r <= 0xD7FF) || (r >= 0xE000 && r <= 0xFFFD) || (r >= 0x10000 && r <= 0x10FFFF) {
			b.WriteRune(r)
		} else {
			b.WriteRune(0xFFFD)
		}
	}
	return b.String()
}

func checkC11(s *docState, v *PkgView) []string {
	var bad []string
	if v.Doc == nil {
		return []string{"main part unreadable"}
	}
	docRels := map[string][]RelV{}
	for _, r := range v.Rels["word/_rels/document.xml.rels"] {
		docRels[r.ID] = append(docRels[r.ID], r)
	}
	sects := v.Doc.find("sectPr")
	for _, sp := range sects {
		for _, kind := range []string{"header", "footer"} {
			seen := map[string]int{}
			for _, ref := range sp.Children {
				if ref.Name != kind+"Reference" {
					continue
				}
				typ := ref.Attrs["type"]
				seen[typ]++
				if seen[typ] > 1 {
					bad = append(bad, fmt.Sprintf("one_per_kind: %d %s references of type %s", seen[typ], kind, typ))
					continue
				}
				rs := docRels[ref.Attrs["id"]]
				if len(rs) != 1 || relKind(rs[0].Type) != kind {
					bad = append(bad, fmt.Sprintf("ref_resolves: %s reference %s (%s) resolves to %d matching relationships", kind, ref.Attrs["id"], typ, len(rs)))
					continue
				}
				part := resolveTarget("word/_rels/document.xml.rels", rs[0].Target)
				data, ok := v.Parts[part]
				if !ok {
					bad = append(bad, fmt.Sprintf("ref_resolves: %s reference %s -> %s is not a part", kind, ref.Attrs["id"], part))
					continue
				}
				if want, ok := s.hf[kind+"/"+typ]; ok {
					want = xmlCharNorm(want)
					root, err := parseXML(data)
					if err != nil {
						bad = append(bad, "latest_payload: "+part+" is not well-formed")
					} else if got := root.runText(); !strings.Contains(got, want) || (want == "" && strings.TrimSpace(strings.Trim(got, "1")) != "") {
						bad = append(bad, fmt.Sprintf("latest_payload: %s of type %s shows %q, the last call said %q", kind, typ, got, want))
					}
				}
			}
		}
	}
	// every kind that was defined is referenced
	if len(sects) > 0 {
		sp := sects[len(sects)-1]
		for key := range s.hf {
			parts := strings.SplitN(key, "/", 2)
			found := false
			for _, ref := range sp.Children {
				if ref.Name == parts[0]+"Reference" && ref.Attrs["type"] == parts[1] {
					found = true
				}
			}
			if !found {
				bad = append(bad, fmt.Sprintf("defined_is_referenced: no %s reference of type %s in the saved section settings", parts[0], parts[1]))
			}
		}
	} else if len(s.hf) > 0 {
		bad = append(bad, "defined_is_referenced: no section settings in the saved main part")
	}
	return bad
}

// ---- generation -------------------------------------------------------------------------------

var hkinds = []string{"default", "first", "even"}
var fnames = []string{"", "photo.png", "photo.jpg", "PHOTO.JPEG", "x.gif", "noext", "two.dots.png", "图片.png", "with space.jpeg", "a.dat", "same.png", "same.png"}

func genHistory(r *rng, prop string) (foreign *foreignPkg, ops []hop) {
	if r.chance(map[string]int{"C04": 90, "C02": 55, "C10": 40, "C11": 35, "C01": 35}[prop]) {
		foreign = genForeign(r)
	}
	live := []bool{true, false, false}
	atom := 1 + r.intn(20)
	nextAtom := func() int { atom++; return atom }
	n := r.rangeI(3, 16)
	texts := []string{"plain", "a<b&c>d", "\"quoted\" 'x'", "tab\there", "", "  spaced  ", "ünïcödé 中文", "ctrl\x0bchar", "{{name}}", "]]>"}
	weights := map[string][]int{
		// AddImage AddHF AddList AddNote SetNoteCfg SetProps AddPlaceholder AddPara SaveReopen Render Save
		"C01": {14, 14, 8, 10, 5, 6, 10, 8, 8, 10, 10},
		"C02": {16, 14, 9, 10, 6, 4, 10, 3, 10, 10, 10},
		"C04": {18, 12, 6, 6, 4, 4, 8, 6, 12, 8, 12},
		"C10": {26, 6, 4, 4, 2, 2, 14, 3, 12, 14, 12},
		"C11": {8, 32, 4, 3, 2, 2, 6, 3, 12, 14, 12},
	}[prop]
	phs := map[int][]int{0: nil, 1: nil, 2: nil}
	phName := 0
	for i := 0; i < n; i++ {
		var lv []int
		for k, b := range live {
			if b {
				lv = append(lv, k)
			}
		}
		reg := lv[r.intn(len(lv))]
		switch r.pick(weights) {
		case 0:
			f := []string{"png", "jpeg", "gif"}[r.intn(3)]
			h := hop{Kind: "AddImage", R: reg, Fmt: f, Atom: nextAtom(), FName: fnames[r.intn(len(fnames))]}
			if r.chance(8) {
				// the format given in another spelling, or not a format of the library: refused, or handled like the format
				h.FmtStr = map[string][]string{"png": {"PNG", "Png", "image/png"}, "jpeg": {"JPEG", "Jpeg", "jpg", "JPG"}, "gif": {"GIF", "Gif"}}[f][r.intn(2)]
				if r.chance(25) {
					h.FmtStr = []string{"bmp", "", " png", "tiff"}[r.intn(4)]
				}
			}
			if r.chance(25) {
				h.Cell = true
				h.WMM = r.rangeI(0, 60)
			} else if r.chance(55) {
				// a size configuration: of this call alone, or one of the caller's shared objects (the same values for
				// every addition that uses it)
				var prev []hop
				for _, o := range ops {
					if o.Kind == "AddImage" && o.CfgID > 0 {
						prev = append(prev, o)
					}
				}
				if len(prev) > 0 && r.chance(55) {
					o := prev[r.intn(len(prev))]
					h.HasCfg, h.CfgID, h.WUm, h.HUm, h.Keep = true, o.CfgID, o.WUm, o.HUm, o.Keep
				} else {
					dim := func() int {
						switch r.intn(4) {
						case 0:
							return 0
						case 1:
							return r.rangeI(1, 120) * 1000
						}
						return r.rangeI(1000, 120000)
					}
					h.HasCfg, h.WUm, h.HUm, h.Keep = true, dim(), dim(), r.chance(60)
					if r.chance(55) {
						h.CfgID = 1 + len(prev)
					}
				}
			}
			ops = append(ops, h)
		case 1:
			hfText := fmt.Sprintf("hf%d %s", i, texts[r.intn(len(texts))])
			if r.chance(25) {
				hfText += " {{hv}}" // a placeholder: a later rendering of this document as a template fills it in
			}
			ops = append(ops, hop{Kind: "AddHF", R: reg, Footer: r.chance(50), HK: hkinds[r.intn(3)], Variant: r.intn(3), Text: hfText})
		case 2:
			ops = append(ops, hop{Kind: "AddList", R: reg, Text: texts[r.intn(len(texts))], Variant: r.intn(3)})
		case 3:
			ops = append(ops, hop{Kind: "AddNote", R: reg, Footer: r.chance(40), Text: texts[r.intn(len(texts))]})
		case 4:
			ops = append(ops, hop{Kind: "SetNoteCfg", R: reg})
		case 5:
			ops = append(ops, hop{Kind: "SetProps", R: reg, Text: texts[r.intn(len(texts))]})
		case 6:
			phName++
			ops = append(ops, hop{Kind: "AddPlaceholder", R: reg, Name: phName})
			phs[reg] = append(phs[reg], phName)
		case 7:
			ops = append(ops, hop{Kind: "AddPara", R: reg, Text: texts[r.intn(len(texts))]})
		case 8:
			ops = append(ops, hop{Kind: "SaveReopen", R: reg, ToFile: r.chance(30)})
		case 9:
			dst := r.intn(3)
			if dst == reg {
				dst = (dst + 1) % 3
			}
			h := hop{Kind: "Render", R: dst, Src: reg, HV: r.intn(len(hvValues))}
			// the caller's data: an object of this rendering alone, or one used for several renderings
			var prevR []hop
			for _, o := range ops {
				if o.Kind == "Render" && o.DataID > 0 {
					prevR = append(prevR, o)
				}
			}
			if len(prevR) > 0 && r.chance(45) {
				o := prevR[r.intn(len(prevR))]
				h.DataID, h.Imgs = o.DataID, o.Imgs
			} else {
				for _, name := range phs[reg] {
					if r.chance(80) {
						h.Imgs = append(h.Imgs, imgArg{Name: name, Fmt: []string{"png", "jpeg", "gif"}[r.intn(3)], Atom: nextAtom(), ByPath: r.chance(30)})
					}
				}
				// some data for placeholders the template may not have (a shared object meets other templates later)
				if r.chance(40) {
					extra := imgArg{Name: 1 + r.intn(3), Fmt: []string{"png", "jpeg", "gif"}[r.intn(3)], Atom: nextAtom(), ByPath: r.chance(30)}
					dup := false
					for _, a := range h.Imgs {
						dup = dup || a.Name == extra.Name
					}
					if !dup {
						h.Imgs = append(h.Imgs, extra)
					}
				}
				if r.chance(50) {
					h.DataID = 1 + len(prevR)
				}
			}
			ops = append(ops, h)
			live[dst] = true
			phs[dst] = nil
		default:
			ops = append(ops, hop{Kind: "Save", R: reg, ToFile: r.chance(30)})
		}
	}
	// every live document is saved at the end, oldest register first (documents saved after later
	// calls on other documents)
	for k, b := range live {
		if b {
			ops = append(ops, hop{Kind: "Save", R: k, ToFile: r.chance(20)})
		}
	}
	return
}

func hopCoq(h hop, view string) string {
	fm := map[string]string{"png": "FPng", "jpeg": "FJpeg", "gif": "FGif"}
	hk := map[string]string{"default": "HDefault", "first": "HFirst", "even": "HEven"}
	on := func(o string) string { return fmt.Sprintf("(On %d %s)", h.R, o) }
	switch h.Kind {
	case "AddImage":
		return on(fmt.Sprintf("(AddImage %s %d%%N %s)", fm[h.Fmt], h.Atom, cBool(!h.Cell)))
	case "AddHF":
		return on(fmt.Sprintf("(AddHF %s %s 0%%N)", cBool(h.Footer), hk[h.HK]))
	case "AddList":
		return on("AddList")
	case "AddNote":
		return on(fmt.Sprintf("(AddNote %s)", cBool(h.Footer)))
	case "SetNoteCfg":
		return on("SetNoteCfg")
	case "SetProps":
		return on("SetProps")
	case "AddPlaceholder":
		return on(fmt.Sprintf("(AddPlaceholder %d%%N)", h.Name))
	case "SaveReopen":
		return on("SaveReopen")
	case "Render":
		var xs []string
		for _, a := range h.Imgs {
			xs = append(xs, fmt.Sprintf("(%d%%N, (%s, %d%%N))", a.Name, fm[a.Fmt], a.Atom))
		}
		return fmt.Sprintf("(Render %d %d %s)", h.Src, h.R, cList(xs))
	case "Save":
		return fmt.Sprintf("(Save %d %s)", h.R, view)
	}
	return ""
}

type pkgCase struct {
	Foreign *foreignPkg `json:"foreign,omitempty"`
	Ops     []hop       `json:"ops"`
}

// runPkgCase executes a history; returns the Coq term of the case and oracle failures.
func runPkgCase(prop string, c pkgCase, tmp string) (coq string, fails []OracleFailure, nSaves int, nOK int) {
	regs := make([]*docState, 3)
	initView := "None"
	var doc *document.Document
	st := &docState{hf: map[string]string{}, touched: map[string]bool{}, extents: map[int][2]int64{}, extIn: map[int]extIn{}}
	casePool = map[int]*document.ImageConfig{}
	dataPool, dataPoolDump = map[int]*document.TemplateData{}, map[int]string{}
	if c.Foreign != nil {
		raw := c.Foreign.build()
		fv, err := readPackage(raw)
		if err != nil {
			return "", []OracleFailure{{Clause: "harness", Detail: "foreign package unreadable: " + err.Error()}}, 0, 0
		}
		d, err := document.OpenFromMemory(io.NopCloser(bytes.NewReader(raw)))
		if err != nil {
			return "", []OracleFailure{{Clause: "open_foreign", Detail: "well-formed foreign package rejected: " + err.Error()}}, 0, 0
		}
		doc = d
		initView = "(Some " + viewCoq(fv, atomOfBytes) + ")"
		st.foreign = fv.Parts
		st.frels = fv.Rels["word/_rels/document.xml.rels"]
		for _, id := range c.Foreign.BodyPics {
			for _, r := range c.Foreign.DocRels {
				if r.ID == id {
					st.images = append(st.images, c.Foreign.Media["word/"+r.Target])
				}
			}
		}
		for _, h := range c.Foreign.HRefs {
			for _, r := range c.Foreign.DocRels {
				if r.ID == h[1] {
					st.hf["header/"+h[0]] = c.Foreign.HdrText["word/"+r.Target]
				}
			}
		}
		for _, h := range c.Foreign.FRefs {
			for _, r := range c.Foreign.DocRels {
				if r.ID == h[1] {
					st.hf["footer/"+h[0]] = c.Foreign.HdrText["word/"+r.Target]
				}
			}
		}
	} else {
		doc = document.New()
	}
	st.doc = doc
	regs[0] = st
	var steps []string
	for i, h := range c.Ops {
		if regs[h.R] == nil && h.Kind != "Render" {
			continue
		}
		if h.Kind == "Render" && regs[h.Src] == nil {
			continue
		}
		obs, err := applyHop(regs, h, tmp)
		if err == errRefused {
			continue
		}
		if err != nil {
			clause := "call_succeeds"
			if strings.HasPrefix(err.Error(), "data_modified") {
				clause = "data_unchanged"
			}
			fails = append(fails, OracleFailure{Clause: clause, Detail: fmt.Sprintf("op %d %s: %v", i, h.Kind, err)})
			break
		}
		nOK++
		if h.Kind == "AddPara" {
			continue
		}
		view := ""
		if obs != nil {
			nSaves++
			view = viewCoq(obs.View, atomOfBytes)
			for _, b := range oraclePkg(prop, regs[h.R], obs.View) {
				cl := strings.SplitN(b, ":", 2)[0]
				fails = append(fails, OracleFailure{Clause: cl, Detail: fmt.Sprintf("save at op %d (document %d): %s", i, h.R, b)})
			}
		}
		steps = append(steps, hopCoq(h, view))
	}
	coq = fmt.Sprintf("(mkCase %s %s)", initView, cList(steps))
	return
}

func shrinkPkg(prop string, c pkgCase, clause string, tmp string) pkgCase {
	cur := c
	fails := func(x pkgCase) bool {
		_, fs, _, _ := runPkgCase(prop, x, tmp)
		for _, f := range fs {
			if f.Clause == clause {
				return true
			}
		}
		return false
	}
	for changed := true; changed; {
		changed = false
		for i := 0; i < len(cur.Ops); i++ {
			cand := pkgCase{Foreign: cur.Foreign, Ops: append(append([]hop{}, cur.Ops[:i]...), cur.Ops[i+1:]...)}
			if fails(cand) {
				cur, changed = cand, true
				i--
			}
		}
		if cur.Foreign != nil {
			if cand := (pkgCase{Ops: cur.Ops}); fails(cand) {
				cur, changed = cand, true
			}
		}
	}
	return cur
}

func runPkg(prop string, cfg *runCfg) error {
	res := newResult(prop, cfg.seed)
	r := newRng(cfg.seed*7919 + uint64(prop[1]-'0')*10 + uint64(prop[2]-'0'))
	dist := newDistinct()
	tmp, err := os.MkdirTemp(cfg.out, "docs")
	if err != nil {
		return err
	}
	defer os.RemoveAll(tmp)
	res.Rule = "histories of 3-16 calls (images in body/cell/placeholder, 6 header/footer calls x 3 kinds, lists, notes, settings, properties, save+reopen, template rendering between up to 3 documents) starting from New() or from a generated foreign package (arbitrary relationship ids/order, extra parts, media names, header parts with own relationships); every live document is saved at the end; non-trivial = at least 3 successful calls and 2 saves; distinct by hash of the case"
	if prop == "C01" || prop == "C02" {
		res.Rule += "; plus a surface stream for the oracle alone (n/6 documents, new or opened foreign packages): 30 exported methods of the document, its tables and paragraphs called reflectively with made-up arguments (texts that need escaping, control characters, invalid UTF-8, directive-like text), then saved"
	}
	var coqCases []string
	shrunk := 0
	for ci := 0; ci < cfg.n; ci++ {
		cr := r.fork()
		f, ops := genHistory(cr, prop)
		c := pkgCase{Foreign: f, Ops: ops}
		coq, fails, nSaves, nOK := runPkgCase(prop, c, tmp)
		res.Evaluations++
		for _, h := range ops {
			res.Histogram[h.Kind]++
		}
		if f != nil {
			res.Histogram["start:foreign"]++
		} else {
			res.Histogram["start:new"]++
		}
		if nOK >= 3 && nSaves >= 2 {
			dist.add(c)
		}
		seen := map[string]bool{}
		for _, fl := range fails {
			if seen[fl.Clause] {
				continue
			}
			seen[fl.Clause] = true
			fl.CaseID = ci
			if shrunk < 12 {
				sc := shrinkPkg(prop, c, fl.Clause, tmp)
				fl.Case = sc
				shrunk++
			} else {
				fl.Case = c
			}
			res.OracleFailures = append(res.OracleFailures, fl)
		}
		if coq == "" {
			coq = "(mkCase None [])"
		}
		coqCases = append(coqCases, coq)
		res.Cases = append(res.Cases, c)
		if len(res.Samples) < 2 && nSaves >= 2 && f != nil {
			res.Samples = append(res.Samples, c)
		}
	}
	if prop == "C01" || prop == "C02" {
		surfaceStream(prop, cfg, res, r.fork(), tmp)
	}
	res.DistinctNontrivial = dist.n()
	res.Shards = writeShards(cfg.out, "pkgcases", "From Coq Require Import ZArith NArith List.\nFrom WZ Require Import Model.Pkg Corr.PkgCorr.", "case", "mismatches", coqCases, 40)
	if prop == "C01" {
		rawCases := rawPartStream(res, r.fork(), cfg.n/3)
		res.Shards = append(res.Shards, writeShards(cfg.out, "rawcases", "From Coq Require Import String List Bool.\nFrom WZ Require Import Model.RawPart Corr.RawPartCorr.", "case", "mismatches", rawCases, 100)...)
		res.Histogram["raw part cases"] = len(rawCases)
	}
	if prop == "C10" {
		res.Shards = append(res.Shards, writeShards(cfg.out, "extcases", "From Coq Require Import ZArith List Bool String.\nFrom WZ Require Import Model.Extent Corr.ExtentCorr.", "case", "mismatches", extObs, 400)...)
		res.Histogram["extent observations (distinct)"] = len(extObs)
	}
	res.write(cfg.out)
	return nil
}

// surfaceStream: the whole exported surface of a document, its tables and its paragraphs, called reflectively with
// made-up arguments (texts that need escaping, control characters, invalid UTF-8, directive-like text, odd numbers) on
// new documents and on opened foreign packages; whatever the calls were, a package that is saved must meet the
// clauses of the property. No model takes part: this stream feeds the oracle only.
func surfaceStream(prop string, cfg *runCfg, res *Result, r *rng, tmp string) {
	n := cfg.n / 6
	perClause := map[string]int{}
	for i := 0; i < n; i++ {
		cr := r.fork()
		var d *document.Document
		origin := "new"
		if cr.chance(35) {
			if od, err := document.OpenFromMemory(io.NopCloser(bytes.NewReader(genForeign(cr).build()))); err == nil && od != nil {
				d, origin = od, "foreign"
			}
		}
		if d == nil {
			d = document.New()
			d.AddParagraph("surface")
			if t, err := d.AddTable(&document.TableConfig{Rows: 2, Cols: 2, Width: 4000}); err == nil {
				_ = t.SetCellText(0, 0, "c")
			}
		}
		seed := cr.next()
		var calls []reflCall
		var ps []panicRec
		guard("surface calls", &ps, func() {
			_, calls = reflCalls(d, seed, tmp, reflOpts{limit: 30, hostile: true})
		})
		res.Histogram["surface: documents ("+origin+")"]++
		res.Histogram["surface: calls"] += len(calls)
		var b []byte
		var err error
		guard("surface save", &ps, func() { b, err = d.ToBytes() })
		if err != nil || b == nil {
			res.Histogram["surface: save refused"]++
			continue
		}
		var bad []string
		v, verr := readPackage(b)
		if verr != nil {
			bad = []string{"zip_readable: " + verr.Error()}
		} else if prop == "C01" {
			bad = v.checkC01()
		} else {
			bad = v.checkC02()
		}
		for _, m := range bad {
			clause := m
			if k := strings.Index(m, ":"); k > 0 {
				clause = m[:k]
			}
			perClause[clause]++
			if perClause[clause] > 3 {
				continue
			}
			var names []string
			for _, c := range calls {
				if c.ok {
					names = append(names, c.name)
				}
			}
			res.OracleFailures = append(res.OracleFailures, OracleFailure{Clause: clause, Class: "surface:" + clause, Detail: fmt.Sprintf("surface stream (%s document, seed %d): after the calls %v the saved package fails %s", origin, seed, names, m), CaseID: -1 - i})
		}
	}
}

type pkgNamedString string

// anyItem: the first item of the first non-empty list in name order (its Go type is part of the data)
func anyItem(lists map[string][]interface{}) interface{} {
	var names []string
	for n := range lists {
		names = append(names, n)
	}
	sort.Strings(names)
	for _, n := range names {
		if len(lists[n]) > 0 {
			return lists[n][0]
		}
	}
	return nil
}
