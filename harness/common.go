package main

import (
	"crypto/sha1"
	"encoding/hex"
	"encoding/json"
	"fmt"
	"os"
	"path/filepath"
	"sort"
	"strings"
)

// OracleFailure is one case on which the property's oracle failed on the implementation.
type OracleFailure struct {
	Class  string      `json:"class"`  // quirk / finding class ("" = unclassified)
	Clause string      `json:"clause"` // which clause of the property failed
	Detail string      `json:"detail"`
	Case   interface{} `json:"case"` // replayable input
	CaseID int         `json:"case_id"`
}

// Result is what a harness run reports to bin/check.
type Result struct {
	Property           string                 `json:"property"`
	Seed               uint64                 `json:"seed"`
	Evaluations        int                    `json:"evaluations"`
	DistinctNontrivial int                    `json:"distinct_nontrivial"`
	Rule               string                 `json:"rule"`
	Histogram          map[string]int         `json:"histogram"`
	Samples            []interface{}          `json:"samples"`
	OracleFailures     []OracleFailure        `json:"oracle_failures"`
	Quirks             map[string]bool        `json:"quirks"`
	Shards             []string               `json:"shards"`
	Cases              []interface{}          `json:"cases,omitempty"` // all cases, for replay of correspondence mismatches
	Notes              []string               `json:"notes,omitempty"`
	Extra              map[string]interface{} `json:"extra,omitempty"`
}

func newResult(prop string, seed uint64) *Result {
	return &Result{Property: prop, Seed: seed, Histogram: map[string]int{}, Quirks: map[string]bool{}, Extra: map[string]interface{}{}}
}

func (r *Result) write(dir string) {
	b, err := json.MarshalIndent(r, "", " ")
	if err != nil {
		panic(err)
	}
	if err := os.WriteFile(filepath.Join(dir, "result.json"), b, 0644); err != nil {
		panic(err)
	}
}

func hashOf(v interface{}) string {
	b, _ := json.Marshal(v)
	h := sha1.Sum(b)
	return hex.EncodeToString(h[:8])
}

// distinct counter for non-trivial cases
type distinct struct{ seen map[string]bool }

func newDistinct() *distinct          { return &distinct{seen: map[string]bool{}} }
func (d *distinct) add(v interface{}) { d.seen[hashOf(v)] = true }
func (d *distinct) n() int            { return len(d.seen) }

// ---- Coq term printing -------------------------------------------------

func cZ(i int64) string {
	if i < 0 {
		return fmt.Sprintf("(%d)", i)
	}
	return fmt.Sprintf("%d", i)
}

func cBool(b bool) string {
	if b {
		return "true"
	}
	return "false"
}

// cStr prints a Coq string literal; the generators only use printable ASCII in strings that
// go through Coq's string type.
func cStr(s string) string {
	var b strings.Builder
	b.WriteByte('"')
	for i := 0; i < len(s); i++ {
		c := s[i]
		if c == '"' {
			b.WriteString(`""`)
		} else if c >= 32 && c < 127 {
			b.WriteByte(c)
		} else {
			b.WriteByte('?')
		}
	}
	b.WriteByte('"')
	return b.String()
}

func cList(xs []string) string { return "[" + strings.Join(xs, "; ") + "]" }

func cOpt(s string, some bool) string {
	if some {
		return "(Some " + s + ")"
	}
	return "None"
}

// cBytes prints a byte string as a Coq list of N (used by the byte-level models).
func cBytes(b []byte) string {
	xs := make([]string, len(b))
	for i, c := range b {
		xs[i] = fmt.Sprintf("%d", c)
	}
	return "[" + strings.Join(xs, ";") + "]%N"
}

// writeShards writes Coq case files: header, then "Definition cases : <ty> := [ ... ]." and the
// mismatch evaluation.  Returns the file names.
func writeShards(dir, prefix, imports, caseTy, mismatchFn string, cases []string, per int) []string {
	var files []string
	for k := 0; k*per < len(cases); k++ {
		lo, hi := k*per, (k+1)*per
		if hi > len(cases) {
			hi = len(cases)
		}
		var b strings.Builder
		b.WriteString(imports)
		b.WriteString("\nImport ListNotations.\nOpen Scope Z_scope.\nOpen Scope string_scope.\n")
		fmt.Fprintf(&b, "(* cases %d..%d *)\nDefinition cases : list %s := [\n", lo, hi-1, caseTy)
		b.WriteString(strings.Join(cases[lo:hi], ";\n"))
		b.WriteString("\n].\n")
		fmt.Fprintf(&b, "Definition M := Eval vm_compute in %s cases.\nPrint M.\n", mismatchFn)
		name := fmt.Sprintf("%s_%03d.v", prefix, k)
		if err := os.WriteFile(filepath.Join(dir, name), []byte(b.String()), 0644); err != nil {
			panic(err)
		}
		files = append(files, name)
	}
	return files
}

func sortedKeys(m map[string]int) []string {
	var ks []string
	for k := range m {
		ks = append(ks, k)
	}
	sort.Strings(ks)
	return ks
}

func min(a, b int) int {
	if a < b {
		return a
	}
	return b
}

// shuffle: Fisher-Yates with the harness generator
func (r *rng) shuffle(n int, swap func(i, j int)) {
	for i := n - 1; i > 0; i-- {
		swap(i, r.intn(i+1))
	}
}
