package main

import (
	"archive/zip"
	"bytes"
	"fmt"
	"io"
	"regexp"
	"sort"
	"strconv"
	"strings"

	"github.com/zerx-lab/wordZero/pkg/document"
)

func init() { props["C15"] = runC15 }

type numOp struct {
	Kind  string `json:"kind"`
	Type  int    `json:"type,omitempty"`
	Sym   int    `json:"sym,omitempty"`
	Start int    `json:"start,omitempty"`
	Level int    `json:"level,omitempty"`
	Via   string `json:"via,omitempty"`
	End   bool   `json:"endnote,omitempty"`
	Text  int    `json:"text,omitempty"`
	ID    int    `json:"id,omitempty"`
	Style string `json:"style,omitempty"`
	OK    bool   `json:"ok,omitempty"`
}

var listTypes = []document.ListType{document.ListTypeBullet, document.ListTypeNumber, document.ListTypeDecimal, document.ListTypeLowerLetter, document.ListTypeUpperLetter, document.ListTypeLowerRoman, document.ListTypeUpperRoman, document.ListType("weird")}
var bulletSyms = []document.BulletType{document.BulletTypeDot, document.BulletTypeCircle, document.BulletTypeSquare, document.BulletTypeDash, document.BulletTypeArrow, document.BulletType("*")}
var fmtCodes = map[string]int{"bullet": 0, "decimal": 1, "lowerLetter": 2, "upperLetter": 3, "lowerRoman": 4, "upperRoman": 5}
var typeFmt = []int{0, 1, 1, 2, 3, 4, 5, -1}
var headingStyles = []string{"Heading2", "heading4", "Title3", "3", "10", "Heading10", "HEADING5", "headingX", "13", "Quote", "Heading0", "heading12"}

func genNumOp(r *rng, canGen bool) numOp {
	switch r.pick([]int{30, 14, 8, 16, 8, 6, 4, 6, 8, 5}) {
	case 9:
		// RestartNumbering of a list that exists, of one that does not, or with something that is not a number
		return numOp{Kind: "Restart", ID: []int{1, 1, 2, 3, 5, 9, 40, -1}[r.intn(8)]}
	case 0:
		lvl := r.rangeI(0, 8)
		if r.chance(15) {
			lvl = []int{-1, 9, 10, 100, -5}[r.intn(5)]
		}
		return fixItem(numOp{Kind: "Item", Type: r.intn(len(listTypes)), Sym: r.intn(len(bulletSyms)), Start: []int{0, 1, 1, 1, 5, 7, 100, -3}[r.intn(8)], Level: lvl, Via: []string{"AddListItem", "AddListItem", "AddBulletList", "AddNumberedList", "CreateMultiLevelList"}[r.intn(5)], Text: r.rangeI(2, 900)})
	case 1:
		return numOp{Kind: "Note", End: r.chance(40), Text: r.rangeI(2, 900), Start: []int{0, 0, 0, 0, 1, 2, 3, 5}[r.intn(8)]}
	case 2:
		return numOp{Kind: "Remove", End: r.chance(40), ID: r.rangeI(0, 6)}
	case 3:
		t := r.rangeI(2, 900)
		if r.chance(10) {
			t = 0
		}
		return numOp{Kind: "Heading", Level: []int{1, 2, 3, 4, 5, 6, 7, 8, 9, 0, 10, -1, 1, 2, 3}[r.intn(15)], Text: t}
	case 4:
		return numOp{Kind: "Styled", Style: headingStyles[r.intn(len(headingStyles))], Text: r.rangeI(2, 900)}
	case 5:
		return numOp{Kind: "Para", Text: r.rangeI(2, 900)}
	case 6:
		if canGen {
			return numOp{Kind: "Gen", Level: []int{1, 2, 3, 3, 5, 9}[r.intn(6)]}
		}
		return numOp{Kind: "Upd"}
	case 7:
		return numOp{Kind: "Upd"}
	default:
		return numOp{Kind: "Check"}
	}
}

// AddNumberedList is for numbered types
func fixItem(o numOp) numOp {
	if o.Via == "AddNumberedList" && o.Type == 0 {
		o.Type = 1
	}
	return o
}

func textOf(a int) string {
	if a == 0 {
		return ""
	}
	return fmt.Sprintf("T%d", a)
}

var reT = regexp.MustCompile(`T([0-9]+)`)
var reN = regexp.MustCompile(`N([0-9]+)`)

func atomRe(re *regexp.Regexp, s string) int {
	if m := re.FindStringSubmatch(s); m != nil {
		n, _ := strconv.Atoi(m[1])
		return n
	}
	return 0
}

type itemObs struct {
	NumID, ILvl int
	Has         bool
	Fmt         int // -1 none
	TextSym     int // symbol code, or -1
	TextPat     int // pattern number, or -1
	NoText      bool
	Start       int
}

type numCheck struct {
	Items    []itemObs
	FN, EN   [][2]int
	FC, EC   int
	TOC      [][2]int
	HasTOC   bool
	Headings [][2]int
}

func val(n *XNode, child string) (string, bool) {
	c := n.child(child)
	if c == nil {
		return "", false
	}
	v, ok := c.Attrs["val"]
	return v, ok
}

func observeNum(d *document.Document) (*numCheck, error) {
	data, err := d.ToBytes()
	if err != nil {
		return nil, err
	}
	v, err := readPackage(data)
	if err != nil {
		return nil, err
	}
	if v.Doc == nil {
		return nil, fmt.Errorf("main part unreadable: %v", v.XMLErr)
	}
	k := &numCheck{FC: d.GetFootnoteCount(), EC: d.GetEndnoteCount()}
	var numbering *XNode
	if b, ok := v.Parts["word/numbering.xml"]; ok {
		numbering, _ = parseXML(b)
	}
	body := v.Doc.child("body")
	for _, p := range body.Children {
		if p.Name == "sdt" && !k.HasTOC {
			if g := p.find("docPartGallery"); len(g) > 0 && g[0].Attrs["val"] == "Table of Contents" {
				k.HasTOC = true
				if c := p.child("sdtContent"); c != nil {
					lastSdtText := ""
					for _, ep := range c.Children {
						if ep.Name == "sdt" {
							lastSdtText = ep.runText() // the entry text is written as a sibling content control before its paragraph
							continue
						}
						if ep.Name != "p" {
							continue
						}
						if ppr := ep.child("pPr"); ppr != nil {
							if sv, ok := val(ppr, "pStyle"); ok {
								if n, err := strconv.Atoi(sv); err == nil && n >= 13 {
									k.TOC = append(k.TOC, [2]int{atomRe(reT, lastSdtText+" "+ep.runText()), n - 12})
									lastSdtText = ""
								}
							}
						}
					}
				}
			}
		}
		if p.Name != "p" {
			continue
		}
		ppr := p.child("pPr")
		if ppr == nil {
			continue
		}
		np := ppr.child("numPr")
		if np == nil {
			continue
		}
		nid, _ := val(np, "numId")
		il, _ := val(np, "ilvl")
		it := itemObs{Fmt: -1, TextSym: -1, TextPat: -1}
		it.NumID, _ = strconv.Atoi(nid)
		it.ILvl, _ = strconv.Atoi(il)
		if numbering != nil {
			for _, num := range numbering.Children {
				if num.Name != "num" || num.Attrs["numId"] != nid {
					continue
				}
				aid, _ := val(num, "abstractNumId")
				for _, an := range numbering.Children {
					if an.Name != "abstractNum" || an.Attrs["abstractNumId"] != aid {
						continue
					}
					for _, lv := range an.Children {
						if lv.Name != "lvl" || lv.Attrs["ilvl"] != il {
							continue
						}
						it.Has = true
						if f, ok := val(lv, "numFmt"); ok {
							if c, ok := fmtCodes[f]; ok {
								it.Fmt = c
							} else {
								it.Fmt = 99
							}
						}
						if t, ok := val(lv, "lvlText"); ok {
							if m := regexp.MustCompile(`^%([0-9]+)\.$`).FindStringSubmatch(t); m != nil {
								it.TextPat, _ = strconv.Atoi(m[1])
							} else {
								it.TextSym = 99
								for i, s := range bulletSyms {
									if string(s) == t {
										it.TextSym = i
									}
								}
							}
						} else {
							it.NoText = true
						}
						if s, ok := val(lv, "start"); ok {
							it.Start, _ = strconv.Atoi(s)
						}
					}
				}
			}
		}
		k.Items = append(k.Items, it)
	}
	readNotes := func(part, elem string) [][2]int {
		var out [][2]int
		b, ok := v.Parts[part]
		if !ok {
			return nil
		}
		root, err := parseXML(b)
		if err != nil {
			return [][2]int{{-999, 0}}
		}
		for _, n := range root.Children {
			if n.Name != elem || n.Attrs["id"] == "-1" {
				continue
			}
			id, _ := strconv.Atoi(n.Attrs["id"])
			out = append(out, [2]int{id, atomRe(reN, n.runText())})
		}
		sort.Slice(out, func(i, j int) bool { return out[i][0] < out[j][0] })
		return out
	}
	k.FN = readNotes("word/footnotes.xml", "footnote")
	k.EN = readNotes("word/endnotes.xml", "endnote")
	for _, h := range d.ListHeadings() {
		k.Headings = append(k.Headings, [2]int{atomRe(reT, h.Text), h.Level})
	}
	return k, nil
}

func pairsCoq(xs [][2]int, natFirst bool) string {
	var out []string
	for _, x := range xs {
		if natFirst {
			out = append(out, fmt.Sprintf("(%d%%nat, %d%%N)", x[0], x[1]))
		} else {
			out = append(out, fmt.Sprintf("(%d%%N, %d%%nat)", x[0], x[1]))
		}
	}
	return cList(out)
}

func (k *numCheck) coq() string {
	var items []string
	for _, it := range k.Items {
		def := "None"
		if it.Has {
			f := "None"
			if it.Fmt >= 0 {
				f = fmt.Sprintf("(Some %d%%N)", it.Fmt)
			}
			t := "None"
			if it.TextPat >= 0 {
				t = fmt.Sprintf("(Some (TPat %d%%nat))", it.TextPat)
			} else if it.TextSym >= 0 {
				t = fmt.Sprintf("(Some (TSym %d%%N))", it.TextSym)
			}
			def = fmt.Sprintf("(Some (%s, %s, %s))", f, t, cZ(int64(it.Start)))
		}
		items = append(items, fmt.Sprintf("(%d%%nat, %d%%nat, %s)", it.NumID, it.ILvl, def))
	}
	toc := "None"
	if k.HasTOC {
		toc = "(Some " + pairsCoq(k.TOC, false) + ")"
	}
	return fmt.Sprintf("(OCheck (mkCheck %s %s %s %d %d %s %s))", cList(items), pairsCoq(k.FN, true), pairsCoq(k.EN, true), k.FC, k.EC, toc, pairsCoq(k.Headings, false))
}

// reference heading level of a style id: the documented ids (HeadingN, numeric Word ids are not
// produced by this harness's oracle; only AddHeadingParagraph's own ids are judged)
type numOracle struct {
	items    []numOp
	fn, en   map[int]int
	fnNext   int
	enNext   int
	body     [][2]int // text atom, heading level (for AddHeadingParagraph paragraphs only), -1 = level not judged
	tocLevel int
	hasTOC   bool
	tocWant  [][2]int
}

func runNumCase(ops []numOp) (coq string, fail *OracleFailure, nOK int) {
	d := document.New()
	o := &numOracle{fn: map[int]int{}, en: map[int]int{}, fnNext: 1, enNext: 1}
	var steps []string
	setFail := func(clause, detail string) {
		if fail == nil {
			fail = &OracleFailure{Clause: clause, Detail: detail}
		}
	}
	headingsWant := func(maxl int) [][2]int {
		var out [][2]int
		for _, b := range o.body {
			if b[1] > 0 && b[1] <= maxl && b[0] != 0 {
				out = append(out, b)
			}
		}
		return out
	}
	styledSeen := false
	for i := range ops {
		op := &ops[i]
		func() {
			defer func() {
				if p := recover(); p != nil {
					setFail("no_panic", fmt.Sprintf("op %d %s: panic %v", i, op.Kind, p))
				}
			}()
			switch op.Kind {
			case "Item":
				cfg := &document.ListConfig{Type: listTypes[op.Type], BulletSymbol: bulletSyms[op.Sym], StartNumber: op.Start, IndentLevel: op.Level}
				eff := *op
				switch op.Via {
				case "AddBulletList":
					d.AddBulletList(textOf(op.Text), op.Level, bulletSyms[op.Sym])
					eff.Type, eff.Start = 0, 0
				case "AddNumberedList":
					d.AddNumberedList(textOf(op.Text), op.Level, listTypes[op.Type])
					eff.Sym, eff.Start = -1, 1
				case "CreateMultiLevelList":
					d.CreateMultiLevelList([]document.ListItem{{Text: textOf(op.Text), Level: op.Level, Type: listTypes[op.Type], BulletSymbol: bulletSyms[op.Sym], StartNumber: op.Start}})
				default:
					d.AddListItem(textOf(op.Text), cfg)
				}
				o.items = append(o.items, eff)
				sym := eff.Sym
				symc := fmt.Sprintf("%d%%N", sym)
				if sym < 0 {
					symc = "99%N" // AddNumberedList passes an empty symbol
				}
				steps = append(steps, fmt.Sprintf("OItem (mkCfg %d%%N %s %s %s)", eff.Type, symc, cZ(int64(eff.Start)), cZ(int64(eff.Level))))
				nOK++
			case "Reopen":
				data, err := d.ToBytes()
				if err != nil {
					setFail("saves", fmt.Sprintf("op %d: %v", i, err))
					return
				}
				if op.Via == "foreign" {
					// the numbering and notes parts as another producer writes them: the same content under another prefix
					data = otherPrefix(data, []string{"word/numbering.xml", "word/footnotes.xml", "word/endnotes.xml"}, fmt.Sprintf("%s%d", []string{"ns", "W", "x"}[i%3], i)) // (a fresh prefix each time: an earlier one may still be declared)
				}
				nd, err := document.OpenFromMemory(io.NopCloser(bytes.NewReader(data)))
				if err != nil {
					setFail("reopens", fmt.Sprintf("op %d: %v", i, err))
					return
				}
				d = nd
				// new notes get the ids after the highest one in use
				o.fnNext, o.enNext = 1, 1
				for id := range o.fn {
					if id >= o.fnNext {
						o.fnNext = id + 1
					}
				}
				for id := range o.en {
					if id >= o.enNext {
						o.enNext = id + 1
					}
				}
				steps = append(steps, "OReopen")
				nOK++
			case "Restart":
				if op.ID < 0 {
					d.RestartNumbering("first list")
					steps = append(steps, "ORestart None")
				} else {
					d.RestartNumbering(fmt.Sprint(op.ID))
					steps = append(steps, fmt.Sprintf("ORestart (Some %d%%nat)", op.ID))
				}
				nOK++
			case "Note":
				var err error
				if op.Start > 0 {
					// the numbering options of notes (format, the number the display starts with, restart rule) say how notes
					// are shown: they change neither the notes that exist nor the ids new ones get
					_ = d.SetFootnoteConfig(&document.FootnoteConfig{NumberFormat: document.FootnoteFormatDecimal, StartNumber: op.Start,
						RestartEach: document.FootnoteRestartContinuous, Position: document.FootnotePositionPageBottom})
				}
				if op.End {
					err = d.AddEndnote("body", fmt.Sprintf("N%d", op.Text))
					o.en[o.enNext] = op.Text
					o.enNext++
				} else {
					err = d.AddFootnote("body", fmt.Sprintf("N%d", op.Text))
					o.fn[o.fnNext] = op.Text
					o.fnNext++
				}
				if err != nil {
					setFail("note_added", fmt.Sprintf("op %d: adding a note failed: %v", i, err))
				}
				steps = append(steps, fmt.Sprintf("ONote %s %d%%N", cBool(op.End), op.Text))
				nOK++
			case "Remove":
				var err error
				m := o.fn
				if op.End {
					err = d.RemoveEndnote(strconv.Itoa(op.ID))
					m = o.en
				} else {
					err = d.RemoveFootnote(strconv.Itoa(op.ID))
				}
				_, live := m[op.ID]
				op.OK = err == nil
				if live != (err == nil) {
					setFail("remove_spec", fmt.Sprintf("op %d: removing note %d (live=%v) returned %v", i, op.ID, live, err))
				}
				if err == nil {
					delete(m, op.ID)
				}
				steps = append(steps, fmt.Sprintf("ORemove %s %d %s", cBool(op.End), op.ID, cBool(err == nil)))
			case "Heading":
				d.AddHeadingParagraph(textOf(op.Text), op.Level)
				l := op.Level
				if l < 1 || l > 9 {
					l = 1
				}
				o.body = append(o.body, [2]int{op.Text, l})
				steps = append(steps, fmt.Sprintf("OHeading %s %d%%N", cZ(int64(op.Level)), op.Text))
				nOK++
			case "Styled":
				p := d.AddParagraph(textOf(op.Text))
				p.SetStyle(op.Style)
				styledSeen = true
				steps = append(steps, fmt.Sprintf("OStyled %s %d%%N", cStr(op.Style), op.Text))
			case "Para":
				d.AddParagraph(textOf(op.Text))
				o.body = append(o.body, [2]int{op.Text, 0})
				steps = append(steps, fmt.Sprintf("OPara %d%%N", op.Text))
			case "Gen":
				if err := d.GenerateTOC(&document.TOCConfig{Title: "Contents", MaxLevel: op.Level, ShowPageNum: true}); err != nil {
					setFail("toc_generated", fmt.Sprintf("op %d: GenerateTOC failed: %v", i, err))
				}
				o.hasTOC, o.tocLevel = true, op.Level
				o.tocWant = headingsWant(op.Level)
				steps = append(steps, fmt.Sprintf("OGen %d", op.Level))
				nOK++
			case "Upd":
				err := d.UpdateTOC()
				op.OK = err == nil
				if o.hasTOC != (err == nil) {
					setFail("toc_update_spec", fmt.Sprintf("op %d: UpdateTOC with a table of contents present=%v returned %v", i, o.hasTOC, err))
				}
				if o.hasTOC {
					o.tocWant = headingsWant(o.tocLevel)
				}
				steps = append(steps, fmt.Sprintf("OUpd %s", cBool(err == nil)))
			case "Check":
				k, err := observeNum(d)
				if err != nil {
					setFail("saves", fmt.Sprintf("op %d: %v", i, err))
					return
				}
				steps = append(steps, k.coq())
				// ---- oracle
				if len(k.Items) != len(o.items) {
					setFail("item_defined", fmt.Sprintf("check at op %d: %d list paragraphs in the saved part, %d items added", i, len(k.Items), len(o.items)))
				}
				for j := 0; j < len(k.Items) && j < len(o.items); j++ {
					it, want := k.Items[j], o.items[j]
					wf := typeFmt[want.Type]
					if wf < 0 {
						continue // a list type the library does not know: nothing is specified
					}
					if !it.Has {
						setFail("item_defined", fmt.Sprintf("check at op %d: item %d (level %d) refers to numId %d ilvl %d which numbering.xml does not define", i, j, want.Level, it.NumID, it.ILvl))
						continue
					}
					okText := (wf == 0 && it.TextSym == want.Sym) || (wf != 0 && it.TextPat == it.ILvl+1)
					if it.Fmt != wf || !okText || it.Start != want.Start {
						setFail("item_definition", fmt.Sprintf("check at op %d: item %d requested (type %s, symbol %d, start %d), numbering.xml defines (fmt %d, sym %d, pattern %d, start %d) at its level", i, j, listTypes[want.Type], want.Sym, want.Start, it.Fmt, it.TextSym, it.TextPat, it.Start))
					}
				}
				cmp := func(name string, got [][2]int, want map[int]int, count int) {
					var w [][2]int
					for id, t := range want {
						w = append(w, [2]int{id, t})
					}
					sort.Slice(w, func(a, b int) bool { return w[a][0] < w[b][0] })
					if fmt.Sprint(got) != fmt.Sprint(w) && !(len(got) == 0 && len(w) == 0) {
						setFail("notes_exact", fmt.Sprintf("check at op %d: %s part lists %v, notes added and not removed are %v", i, name, got, w))
					}
					if count != len(w) {
						setFail("notes_count", fmt.Sprintf("check at op %d: %s count is %d, live notes %d", i, name, count, len(w)))
					}
				}
				cmp("footnotes", k.FN, o.fn, k.FC)
				cmp("endnotes", k.EN, o.en, k.EC)
				if !styledSeen {
					if k.HasTOC != o.hasTOC || (o.hasTOC && fmt.Sprint(k.TOC) != fmt.Sprint(o.tocWant) && !(len(k.TOC) == 0 && len(o.tocWant) == 0)) {
						setFail("toc_entries", fmt.Sprintf("check at op %d: table of contents lists %v, headings up to level %d at the last generate/update are %v", i, k.TOC, o.tocLevel, o.tocWant))
					}
					if w := headingsWant(9); fmt.Sprint(k.Headings) != fmt.Sprint(w) && !(len(k.Headings) == 0 && len(w) == 0) {
						setFail("list_headings", fmt.Sprintf("check at op %d: ListHeadings gives %v, headings in the body are %v", i, k.Headings, w))
					}
				}
			}
		}()
	}
	return "[" + strings.Join(steps, ";\n ") + "]", fail, nOK
}

func runC15(cfg *runCfg) error {
	res := newResult("C15", cfg.seed)
	r := newRng(cfg.seed + 1515)
	dist := newDistinct()
	res.Rule = "histories of 3-28 calls on one document: list items through the four entry points (8 list types incl. an unknown one, 6 bullet symbols, levels -5..100, start numbers incl. 0 and negatives), footnote/endnote add and remove (ids 0-6), headings of levels -1..10, paragraphs restyled with heading-like style ids, GenerateTOC (once) / UpdateTOC, checks (save + independent reading of numbering.xml, notes parts, TOC content control, accessors) in between and at the end; plus an oracle-only stream for the other way of making a table of contents (AutoGenerateTOC on documents whose headings repeat texts, called once or twice); non-trivial = at least 4 content calls; distinct by hash of the op list"
	var coqCases []string
	shrunk := 0
	for ci := 0; ci < cfg.n; ci++ {
		cr := r.fork()
		n := cr.rangeI(3, 28)
		var ops []numOp
		canGen := true
		for i := 0; i < n; i++ {
			// save and open, then go on with the opened document (before any table of contents: the level a table was
			// generated with is not stored in the file)
			if canGen && cr.chance(7) {
				via := ""
				if cr.chance(40) {
					via = "foreign"
				}
				ops = append(ops, numOp{Kind: "Reopen", Via: via})
			}
			op := genNumOp(cr, canGen)
			if op.Kind == "Gen" {
				canGen = false
			}
			ops = append(ops, op)
		}
		ops = append(ops, numOp{Kind: "Check"}, numOp{Kind: "Upd"}, numOp{Kind: "Check"})
		coq, fail, nOK := runNumCase(ops)
		res.Evaluations++
		for _, o := range ops {
			res.Histogram[o.Kind+o.Via]++
		}
		if nOK >= 4 {
			dist.add(ops)
		}
		if fail != nil {
			cur := ops
			if shrunk < 12 {
				shrunk++
				for changed := true; changed; {
					changed = false
					for i := 0; i < len(cur); i++ {
						cand := append(append([]numOp{}, cur[:i]...), cur[i+1:]...)
						if _, f, _ := runNumCase(cand); f != nil && f.Clause == fail.Clause {
							cur, changed = cand, true
							i--
						}
					}
				}
				if _, f2, _ := runNumCase(cur); f2 != nil {
					fail = f2
				}
			}
			fail.Case, fail.CaseID = cur, ci
			res.OracleFailures = append(res.OracleFailures, *fail)
		}
		coqCases = append(coqCases, coq)
		res.Cases = append(res.Cases, ops)
		if len(res.Samples) < 2 && nOK >= 8 {
			res.Samples = append(res.Samples, ops)
		}
	}
	autoTOCStream(res, r.fork(), cfg.n/6)
	res.DistinctNontrivial = dist.n()
	res.Shards = writeShards(cfg.out, "c15cases", "From Coq Require Import ZArith NArith List String.\nFrom WZ Require Import Model.Lists Corr.ListsCorr.", "case", "mismatches", coqCases, 80)
	res.write(cfg.out)
	return nil
}

// autoTOCStream: AutoGenerateTOC (the field-based table of contents), for the oracle alone. Documents of headings
// (levels 1-9, texts that repeat) and paragraphs; the table must list exactly the headings up to the level asked for,
// in order, with their texts - also when two headings have the same text - and a second call must change nothing.
func autoTOCStream(res *Result, r *rng, n int) {
	perClause := map[string]int{}
	fail := func(i int, clause, detail string) {
		perClause[clause]++
		if perClause[clause] <= 3 {
			res.OracleFailures = append(res.OracleFailures, OracleFailure{Clause: clause, Class: "autotoc:" + clause, Detail: detail, CaseID: -200000 - i})
		}
	}
	for i := 0; i < n; i++ {
		cr := r.fork()
		d := document.New()
		var heads [][2]int
		var desc []string
		for k, m := 0, cr.rangeI(1, 9); k < m; k++ {
			if cr.chance(30) {
				d.AddParagraph(textOf(cr.rangeI(2, 900)))
				continue
			}
			lvl := cr.rangeI(1, 9)
			t := cr.rangeI(2, 40)
			if len(heads) > 0 && cr.chance(35) {
				t = heads[cr.intn(len(heads))][0] // the same text as an earlier heading
				res.Histogram["auto TOC: heading with a repeated text"]++
			}
			d.AddHeadingParagraph(textOf(t), lvl)
			heads = append(heads, [2]int{t, lvl})
			desc = append(desc, fmt.Sprintf("h%d %s", lvl, textOf(t)))
		}
		maxl := []int{1, 2, 3, 3, 5, 9}[cr.intn(6)]
		var want [][2]int
		for _, h := range heads {
			if h[1] <= maxl {
				want = append(want, h)
			}
		}
		res.Histogram["auto TOC: documents"]++
		err := d.AutoGenerateTOC(&document.TOCConfig{Title: "Contents", MaxLevel: maxl, ShowPageNum: true})
		if len(want) == 0 {
			continue // nothing to list: the call may refuse
		}
		if err != nil {
			fail(i, "toc_generated", fmt.Sprintf("headings %v, AutoGenerateTOC(level %d): %v", desc, maxl, err))
			continue
		}
		k, oerr := observeNum(d)
		if oerr != nil {
			fail(i, "toc_saved", fmt.Sprintf("headings %v: %v", desc, oerr))
			continue
		}
		if fmt.Sprint(k.TOC) != fmt.Sprint(want) {
			fail(i, "toc_entries", fmt.Sprintf("headings %v, AutoGenerateTOC(level %d): the table lists %v, the headings up to that level are %v", desc, maxl, k.TOC, want))
			continue
		}
		if cr.chance(50) {
			if err := d.AutoGenerateTOC(&document.TOCConfig{Title: "Contents", MaxLevel: maxl, ShowPageNum: true}); err == nil {
				if k2, e2 := observeNum(d); e2 == nil && fmt.Sprint(k2.TOC) != fmt.Sprint(want) {
					fail(i, "toc_idempotent", fmt.Sprintf("headings %v, AutoGenerateTOC(level %d) a second time: the table lists %v, was %v", desc, maxl, k2.TOC, want))
				}
			}
		}
	}
}

// otherPrefix rewrites the named parts of a package so that the WordprocessingML namespace is bound to another prefix
// (the parts are the library's own output: every "w:" in them is the prefix)
func otherPrefix(data []byte, names []string, pfx string) []byte {
	zr, err := zip.NewReader(bytes.NewReader(data), int64(len(data)))
	if err != nil {
		return data
	}
	want := map[string]bool{}
	for _, n := range names {
		want[n] = true
	}
	var out bytes.Buffer
	zw := zip.NewWriter(&out)
	for _, f := range zr.File {
		rc, err := f.Open()
		if err != nil {
			return data
		}
		b, _ := io.ReadAll(rc)
		rc.Close()
		if want[f.Name] {
			t := string(b)
			t = strings.ReplaceAll(t, "<w:", "<"+pfx+":")
			t = strings.ReplaceAll(t, "</w:", "</"+pfx+":")
			t = strings.ReplaceAll(t, " w:", " "+pfx+":")
			t = strings.ReplaceAll(t, "xmlns:w=", "xmlns:"+pfx+"=")
			b = []byte(t)
		}
		w, err := zw.Create(f.Name)
		if err != nil {
			return data
		}
		w.Write(b)
	}
	zw.Close()
	return out.Bytes()
}
