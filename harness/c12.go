package main

import (
	"bytes"
	"fmt"
	"io"
	"math"
	"math/big"
	"strconv"
	"strings"

	"github.com/zerx-lab/wordZero/pkg/document"
)

func init() { props["C12"] = runC12 }

// ---- case representation ----------------------------------------------------

type pageSettingsJ struct {
	Size   string   `json:"size"`
	CW, CH int64    // micrometres
	Ori    string   `json:"ori"`
	L      [7]int64 `json:"lens_um"` // top right bottom left header footer gutter
	GType  string   `json:"gtype"`
	Pitch  int64    `json:"pitch"`
	CS     int64    `json:"cs"`
}

type pageOp struct {
	Kind string         `json:"kind"`
	S    *pageSettingsJ `json:"s,omitempty"`
	Name string         `json:"name,omitempty"`
	A    []int64        `json:"args_um,omitempty"`
	T    string         `json:"t,omitempty"`
}

type pageObs struct {
	OK        bool
	PG        *[3]string // w h orient
	Mar       *[7]string
	Grid      *[3]string
	Size      string
	CW, CH    float64
	Ori       string
	Lens      [7]float64
	GType     string
	Pitch, CS int
}

func um(v int64) float64 { return float64(v) / 1000.0 }

var predefNames = []string{"A4", "Letter", "Legal", "A3", "A5"}
var predefUm = map[string][2]int64{"A4": {210000, 297000}, "Letter": {215900, 279400}, "Legal": {215900, 355600}, "A3": {297000, 420000}, "A5": {148000, 210000}}

func genLenUm(r *rng, hostile bool) int64 {
	switch r.pick([]int{50, 20, 10, 10, 10}) {
	case 0:
		return int64(r.rangeI(0, 100000))
	case 1:
		return int64(r.rangeI(0, 100)) * 1000
	case 2:
		return int64(r.rangeI(0, 500)) * 100
	case 3:
		return 0
	default:
		if hostile {
			return -int64(r.rangeI(1, 50000))
		}
		return int64(r.rangeI(0, 60000))
	}
}

func genCustomDim(r *rng) int64 {
	switch r.pick([]int{40, 25, 15, 10, 10}) {
	case 0:
		return int64(r.rangeI(13000, 558000))
	case 1: // near a predefined dimension (within +-1.2mm)
		d := predefUm[pickS(r, predefNames)][r.intn(2)]
		return d + int64(r.rangeI(-1200, 1200))
	case 2: // exactly a predefined dimension
		return predefUm[pickS(r, predefNames)][r.intn(2)]
	case 3: // around the validity bounds
		b := []int64{12700, 558800}[r.intn(2)]
		return b + int64(r.rangeI(-3, 3))
	default:
		return int64(r.rangeI(-1000, 700000))
	}
}

func genCustomPair(r *rng) (int64, int64) {
	if r.chance(35) {
		// a pair near a predefined size, possibly rotated
		d := predefUm[pickS(r, predefNames)]
		w, h := d[0]+int64(r.rangeI(-1200, 1200)), d[1]+int64(r.rangeI(-1200, 1200))
		if r.chance(40) {
			w, h = h, w
		}
		return w, h
	}
	return genCustomDim(r), genCustomDim(r)
}

var gridTypes = []string{"default", "lines", "snapToChars", "snapToLines", "linesAndChars"}

func genPageOp(r *rng) pageOp {
	switch r.pick([]int{10, 12, 16, 14, 14, 8, 6, 8, 4, 8, 9}) {
	case 10:
		// a call that names no page setting (it may create or look up the section settings all the same)
		return pageOp{Kind: "Other", Name: []string{"AddHeader", "AddFooter", "FirstPage", "FooterPageNumber", "AddParagraph", "AddTable", "AddHeaderEven"}[r.intn(7)]}
	case 0:
		s := &pageSettingsJ{}
		s.Size = append(predefNames, "Custom", "Custom", "Custom", "B5")[r.intn(9)]
		s.CW, s.CH = genCustomPair(r)
		s.Ori = []string{"portrait", "landscape", "portrait", "landscape", "diagonal", ""}[r.pick([]int{40, 40, 5, 5, 5, 5})]
		for i := range s.L {
			s.L[i] = genLenUm(r, r.chance(10))
		}
		s.GType = append(gridTypes, "", "")[r.intn(len(gridTypes)+2)]
		s.Pitch = int64(r.rangeI(-10, 800))
		s.CS = int64(r.rangeI(-5, 50))
		return pageOp{Kind: "SetAll", S: s}
	case 1:
		return pageOp{Kind: "SetSize", Name: append(predefNames, "Custom", "B5")[r.pick([]int{20, 20, 15, 15, 15, 10, 5})]}
	case 2:
		w, h := genCustomPair(r)
		return pageOp{Kind: "SetCustom", A: []int64{w, h}}
	case 3:
		return pageOp{Kind: "SetOrient", Name: []string{"portrait", "landscape", "sideways", ""}[r.pick([]int{45, 45, 5, 5})]}
	case 4:
		h := r.chance(8)
		return pageOp{Kind: "SetMargins", A: []int64{genLenUm(r, h), genLenUm(r, h), genLenUm(r, h), genLenUm(r, h)}}
	case 5:
		h := r.chance(8)
		return pageOp{Kind: "SetHF", A: []int64{genLenUm(r, h), genLenUm(r, h)}}
	case 6:
		return pageOp{Kind: "SetGutter", A: []int64{genLenUm(r, r.chance(8))}}
	case 7:
		return pageOp{Kind: "SetGrid", T: append(gridTypes, "")[r.pick([]int{20, 20, 20, 20, 10, 10})], A: []int64{int64(r.rangeI(0, 800)), int64(r.rangeI(0, 40))}}
	case 8:
		return pageOp{Kind: "ClearGrid"}
	default:
		return pageOp{Kind: "Reopen"}
	}
}

func (s *pageSettingsJ) toLib() *document.PageSettings {
	return &document.PageSettings{
		Size: document.PageSize(s.Size), CustomWidth: um(s.CW), CustomHeight: um(s.CH),
		Orientation: document.PageOrientation(s.Ori),
		MarginTop:   um(s.L[0]), MarginRight: um(s.L[1]), MarginBottom: um(s.L[2]), MarginLeft: um(s.L[3]),
		HeaderDistance: um(s.L[4]), FooterDistance: um(s.L[5]), GutterWidth: um(s.L[6]),
		DocGridType: document.DocGridType(s.GType), DocGridLinePitch: int(s.Pitch), DocGridCharSpace: int(s.CS),
	}
}

// applyPageOp runs one op on the implementation; returns the (possibly new) document and ok.
func applyPageOp(doc *document.Document, op pageOp) (*document.Document, bool, error) {
	var err error
	switch op.Kind {
	case "SetAll":
		err = doc.SetPageSettings(op.S.toLib())
	case "SetSize":
		err = doc.SetPageSize(document.PageSize(op.Name))
	case "SetCustom":
		err = doc.SetCustomPageSize(um(op.A[0]), um(op.A[1]))
	case "SetOrient":
		err = doc.SetPageOrientation(document.PageOrientation(op.Name))
	case "SetMargins":
		err = doc.SetPageMargins(um(op.A[0]), um(op.A[1]), um(op.A[2]), um(op.A[3]))
	case "SetHF":
		err = doc.SetHeaderFooterDistance(um(op.A[0]), um(op.A[1]))
	case "SetGutter":
		err = doc.SetGutterWidth(um(op.A[0]))
	case "SetGrid":
		err = doc.SetDocGrid(document.DocGridType(op.T), int(op.A[0]), int(op.A[1]))
	case "ClearGrid":
		err = doc.ClearDocGrid()
	case "Other":
		switch op.Name {
		case "AddHeader":
			err = doc.AddHeader(document.HeaderFooterTypeDefault, "header")
		case "AddHeaderEven":
			err = doc.AddHeader(document.HeaderFooterTypeEven, "even header")
		case "AddFooter":
			err = doc.AddFooter(document.HeaderFooterTypeFirst, "footer")
		case "FirstPage":
			doc.SetDifferentFirstPage(true)
		case "FooterPageNumber":
			err = doc.AddFooterWithPageNumber(document.HeaderFooterTypeDefault, "page", true)
		case "AddParagraph":
			doc.AddParagraph("text")
		default:
			_, err = doc.AddTable(&document.TableConfig{Rows: 1, Cols: 2, Width: 4000})
		}
	case "Reopen":
		data, e := doc.ToBytes()
		if e != nil {
			return doc, false, fmt.Errorf("ToBytes: %v", e)
		}
		nd, e := document.OpenFromMemory(io.NopCloser(bytes.NewReader(data)))
		if e != nil {
			return doc, false, fmt.Errorf("OpenFromMemory: %v", e)
		}
		return nd, true, nil
	default:
		return doc, false, fmt.Errorf("unknown op %s", op.Kind)
	}
	return doc, err == nil, nil
}

func observePage(doc *document.Document, ok bool) pageObs {
	g := doc.GetPageSettings()
	o := pageObs{OK: ok, Size: string(g.Size), CW: g.CustomWidth, CH: g.CustomHeight, Ori: string(g.Orientation),
		Lens:  [7]float64{g.MarginTop, g.MarginRight, g.MarginBottom, g.MarginLeft, g.HeaderDistance, g.FooterDistance, g.GutterWidth},
		GType: string(g.DocGridType), Pitch: g.DocGridLinePitch, CS: g.DocGridCharSpace}
	for _, el := range doc.Body.Elements {
		if sp, isSp := el.(*document.SectionProperties); isSp {
			if sp.PageSize != nil {
				o.PG = &[3]string{sp.PageSize.W, sp.PageSize.H, sp.PageSize.Orient}
			}
			if m := sp.PageMargins; m != nil {
				o.Mar = &[7]string{m.Top, m.Right, m.Bottom, m.Left, m.Header, m.Footer, m.Gutter}
			}
			if dg := sp.DocGrid; dg != nil {
				o.Grid = &[3]string{dg.Type, dg.LinePitch, dg.CharSpace}
			}
			break
		}
	}
	return o
}

func atoiZ(s string) string {
	v, err := strconv.ParseInt(s, 10, 64)
	if err != nil {
		if s == "-0" {
			return "0"
		}
		return "(-999999999)"
	}
	return cZ(v)
}

func ratZ(f float64) string {
	if math.IsNaN(f) || math.IsInf(f, 0) {
		return "(0, 0)"
	}
	r := new(big.Rat).SetFloat64(f)
	n := r.Num().String()
	if strings.HasPrefix(n, "-") {
		n = "(" + n + ")"
	}
	return "(" + n + ", " + r.Denom().String() + ")"
}

func (o pageObs) coq() string {
	pg, mar, grid := "None", "None", "None"
	if o.PG != nil {
		pg = fmt.Sprintf("(Some (%s, %s, %s))", atoiZ(o.PG[0]), atoiZ(o.PG[1]), cStr(o.PG[2]))
	}
	if o.Mar != nil {
		var xs []string
		for _, s := range o.Mar {
			xs = append(xs, atoiZ(s))
		}
		mar = "(Some (mkMargins " + strings.Join(xs, " ") + "))"
	}
	if o.Grid != nil {
		cs := "None"
		if o.Grid[2] != "" {
			cs = "(Some " + atoiZ(o.Grid[2]) + ")"
		}
		grid = fmt.Sprintf("(Some (%s, %s, %s))", cStr(o.Grid[0]), atoiZ(o.Grid[1]), cs)
	}
	var lens []string
	for _, f := range o.Lens {
		lens = append(lens, ratZ(f))
	}
	return fmt.Sprintf("(mkObs %s %s %s %s %s %s %s %s %s %s %s %s)", cBool(o.OK), pg, mar, grid, cStr(o.Size),
		ratZ(o.CW), ratZ(o.CH), cStr(o.Ori), cList(lens), cStr(o.GType), cZ(int64(o.Pitch)), cZ(int64(o.CS)))
}

func (op pageOp) coq() string {
	switch op.Kind {
	case "SetAll":
		s := op.S
		var ls []string
		for _, v := range s.L {
			ls = append(ls, "(Um "+cZ(v)+")")
		}
		return fmt.Sprintf("(SetAll (mkSettings %s (Um %s) (Um %s) %s %s %s %s %s))", cStr(s.Size), cZ(s.CW), cZ(s.CH), cStr(s.Ori),
			strings.Join(ls, " "), cStr(s.GType), cZ(s.Pitch), cZ(s.CS))
	case "SetSize":
		return "(SetSize " + cStr(op.Name) + ")"
	case "SetCustom":
		return fmt.Sprintf("(SetCustom %s %s)", cZ(op.A[0]), cZ(op.A[1]))
	case "SetOrient":
		return "(SetOrient " + cStr(op.Name) + ")"
	case "SetMargins":
		return fmt.Sprintf("(SetMargins %s %s %s %s)", cZ(op.A[0]), cZ(op.A[1]), cZ(op.A[2]), cZ(op.A[3]))
	case "SetHF":
		return fmt.Sprintf("(SetHF %s %s)", cZ(op.A[0]), cZ(op.A[1]))
	case "SetGutter":
		return fmt.Sprintf("(SetGutter %s)", cZ(op.A[0]))
	case "SetGrid":
		return fmt.Sprintf("(SetGrid %s %s %s)", cStr(op.T), cZ(op.A[0]), cZ(op.A[1]))
	case "ClearGrid":
		return "ClearGrid"
	case "Other":
		return "Other"
	default:
		return "Reopen"
	}
}

// ---- oracle: the property's own sentence, evaluated on the implementation -----------------

const twipMM = 1.0 / 56.692913385827

type pageExpect struct {
	size    string // predefined name or "Custom"
	cw, ch  float64
	land    bool
	lens    [7]float64
	gtype   string
	pitch   int
	cs      int
	nearStd bool // the standard size was reported for a custom size within the 1 mm tolerance
}

func defaultExpect() pageExpect {
	return pageExpect{size: "A4", lens: [7]float64{25.4, 25.4, 25.4, 25.4, 12.7, 12.7, 0}, gtype: "lines", pitch: 312, cs: 0}
}

func (e pageExpect) logical() (float64, float64) {
	if e.size == "Custom" {
		return e.cw, e.ch
	}
	d := predefUm[e.size]
	return um(d[0]), um(d[1])
}

// classify: "valid", "invalid" (must be rejected), "unspecified" (the property does not say)
func classifyPageOp(op pageOp) string {
	// within the documented range: valid; outside it by more than half a twip (0.009 mm): invalid;
	// in between the property does not decide (the size is stored in whole twips)
	customClass := func(w, h int64) string {
		in := func(v int64) bool { return v >= 12700 && v <= 558800 }
		out := func(v int64) bool { return v < 12700-9 || v > 558800+9 }
		if in(w) && in(h) {
			return "valid"
		}
		if out(w) || out(h) {
			return "invalid"
		}
		return "unspecified"
	}
	knownSize := func(n string) bool { _, ok := predefUm[n]; return ok || n == "Custom" }
	switch op.Kind {
	case "SetAll":
		s := op.S
		if s.Ori != "portrait" && s.Ori != "landscape" {
			return "invalid"
		}
		if s.Size == "Custom" && customClass(s.CW, s.CH) != "valid" {
			return customClass(s.CW, s.CH)
		}
		if !knownSize(s.Size) {
			return "unspecified"
		}
		for _, v := range s.L {
			if v < 0 {
				return "unspecified"
			}
		}
		if s.CS < 0 || s.Pitch < 0 {
			return "unspecified"
		}
		return "valid"
	case "SetSize":
		if op.Name == "Custom" || !knownSize(op.Name) {
			return "unspecified"
		}
		return "valid"
	case "SetCustom":
		return customClass(op.A[0], op.A[1])
	case "SetOrient":
		if op.Name != "portrait" && op.Name != "landscape" {
			return "invalid"
		}
		return "valid"
	case "SetMargins", "SetHF", "SetGutter":
		for _, v := range op.A {
			if v < 0 {
				return "invalid"
			}
		}
		return "valid"
	case "SetGrid":
		if op.T == "" {
			return "invalid"
		}
		return "valid"
	}
	return "valid"
}

func approx(a, b, tol float64) bool { return math.Abs(a-b) <= tol }

// checkRead compares what is read with what the calls so far said. Returns "" or a failure text.
func (e *pageExpect) checkRead(o pageObs) string {
	wantOri := "portrait"
	if e.land {
		wantOri = "landscape"
	}
	if o.Ori != wantOri {
		return fmt.Sprintf("orientation reads %q, last set %q", o.Ori, wantOri)
	}
	lw, lh := e.logical()
	if o.Size == "Custom" {
		if e.size != "Custom" {
			return fmt.Sprintf("size reads Custom, last set %s", e.size)
		}
		if !approx(o.CW, lw, 1.01*twipMM) || !approx(o.CH, lh, 1.01*twipMM) {
			return fmt.Sprintf("custom size reads %.4fx%.4f, last set %.4fx%.4f", o.CW, o.CH, lw, lh)
		}
	} else {
		d, ok := predefUm[o.Size]
		if !ok {
			return "size reads unknown name " + o.Size
		}
		if e.size == "Custom" {
			// a near-standard custom size may be reported as the standard size (1 mm tolerance, plus unit rounding)
			if !(approx(lw, um(d[0]), 1.0+twipMM) && approx(lh, um(d[1]), 1.0+twipMM)) {
				return fmt.Sprintf("custom %.3fx%.3f reads as %s", lw, lh, o.Size)
			}
			e.size, e.nearStd = o.Size, true // from now on it is the standard size
		} else if e.size != o.Size {
			return fmt.Sprintf("size reads %s, last set %s", o.Size, e.size)
		}
	}
	for i := range e.lens {
		if !approx(o.Lens[i], e.lens[i], 1.01*twipMM) {
			return fmt.Sprintf("length #%d reads %.4f, last set %.4f", i, o.Lens[i], e.lens[i])
		}
	}
	if o.GType != e.gtype || o.Pitch != e.pitch || o.CS != e.cs {
		return fmt.Sprintf("grid reads (%s,%d,%d), last set (%s,%d,%d)", o.GType, o.Pitch, o.CS, e.gtype, e.pitch, e.cs)
	}
	// physical page: the stored dimensions are the logical ones, swapped exactly when landscape
	if o.PG != nil {
		pw, ph := lw, lh
		if e.size != "Custom" {
			d := predefUm[e.size]
			pw, ph = um(d[0]), um(d[1])
		}
		if e.land {
			pw, ph = ph, pw
		}
		w, _ := strconv.ParseFloat(o.PG[0], 64)
		h, _ := strconv.ParseFloat(o.PG[1], 64)
		tol := 0.51
		if e.nearStd {
			tol += 1.0 / twipMM // the stored page may still be the near-standard custom size
		}
		if !approx(w, pw/twipMM, tol) || !approx(h, ph/twipMM, tol) {
			return fmt.Sprintf("stored page is %sx%s twips, expected %.1fx%.1f", o.PG[0], o.PG[1], pw/twipMM, ph/twipMM)
		}
	}
	return ""
}

func (e *pageExpect) apply(op pageOp) {
	switch op.Kind {
	case "SetAll":
		s := op.S
		e.size, e.cw, e.ch, e.land, e.nearStd = s.Size, um(s.CW), um(s.CH), s.Ori == "landscape", false
		for i := range e.lens {
			e.lens[i] = um(s.L[i])
		}
		if s.GType != "" {
			e.gtype, e.pitch, e.cs = s.GType, int(s.Pitch), int(s.CS)
		}
	case "SetSize":
		e.size, e.nearStd = op.Name, false
	case "SetCustom":
		e.size, e.cw, e.ch, e.nearStd = "Custom", um(op.A[0]), um(op.A[1]), false
	case "SetOrient":
		e.land = op.Name == "landscape"
	case "SetMargins":
		for i := 0; i < 4; i++ {
			e.lens[i] = um(op.A[i])
		}
	case "SetHF":
		e.lens[4], e.lens[5] = um(op.A[0]), um(op.A[1])
	case "SetGutter":
		e.lens[6] = um(op.A[0])
	case "SetGrid":
		e.gtype, e.pitch, e.cs = op.T, int(op.A[0]), int(op.A[1])
	case "ClearGrid":
		e.gtype, e.pitch, e.cs = "lines", 312, 0
	}
}

func obsEqual(a, b pageObs) bool {
	eqp := func(x, y *[3]string) bool { return (x == nil) == (y == nil) && (x == nil || *x == *y) }
	eqm := func(x, y *[7]string) bool { return (x == nil) == (y == nil) && (x == nil || *x == *y) }
	a.OK, b.OK = true, true
	return eqp(a.PG, b.PG) && eqm(a.Mar, b.Mar) && eqp(a.Grid, b.Grid) && a.Size == b.Size && a.CW == b.CW && a.CH == b.CH &&
		a.Ori == b.Ori && a.Lens == b.Lens && a.GType == b.GType && a.Pitch == b.Pitch && a.CS == b.CS
}

// runPageCase runs one history on the implementation: observations per op, and the oracle verdict.
func runPageCase(ops []pageOp) (obs []pageObs, fail *OracleFailure, nOK int) {
	doc := document.New()
	e := defaultExpect()
	oracleOn := true
	// (observed on another new document: reading the settings may itself create the section settings, and the first
	// call of the history must find the document as New returns it)
	prev := observePage(document.New(), true)
	for i, op := range ops {
		nd, ok, err := applyPageOp(doc, op)
		doc = nd
		o := observePage(doc, ok)
		obs = append(obs, o)
		if ok {
			nOK++
		}
		if err != nil && fail == nil {
			fail = &OracleFailure{Clause: "reopen", Detail: fmt.Sprintf("op %d %s: %v", i, op.Kind, err)}
		}
		if oracleOn && fail == nil {
			switch cl := classifyPageOp(op); {
			case op.Kind == "Other":
				if !ok {
					fail = &OracleFailure{Clause: "other_call", Detail: fmt.Sprintf("op %d %s failed", i, op.Name)}
				} else if !obsEqual(prev, o) {
					fail = &OracleFailure{Clause: "other_calls_frame", Detail: fmt.Sprintf("op %d %s (names no page setting) changed the settings: before %+v after %+v", i, op.Name, prev, o)}
				}
			case op.Kind == "Reopen":
				if !obsEqual(prev, o) {
					fail = &OracleFailure{Clause: "reopen_same", Detail: fmt.Sprintf("op %d: settings differ after save+open: before %+v after %+v", i, prev, o)}
				}
			case cl == "unspecified":
				oracleOn = false
			case cl == "invalid":
				if ok {
					fail = &OracleFailure{Clause: "invalid_rejected", Detail: fmt.Sprintf("op %d %s: invalid request accepted", i, op.Kind)}
				} else if !obsEqual(prev, o) {
					fail = &OracleFailure{Clause: "invalid_no_change", Detail: fmt.Sprintf("op %d %s: rejected request changed the settings", i, op.Kind)}
				}
			default:
				if !ok {
					fail = &OracleFailure{Clause: "valid_accepted", Detail: fmt.Sprintf("op %d %s: valid request rejected", i, op.Kind)}
				} else {
					e.apply(op)
					if msg := e.checkRead(o); msg != "" {
						fail = &OracleFailure{Clause: "read_back", Detail: fmt.Sprintf("after op %d %s: %s", i, op.Kind, msg)}
					}
				}
			}
		}
		prev = o
	}
	return
}

func shrinkPage(ops []pageOp, clause string) []pageOp {
	cur := ops
	for changed := true; changed; {
		changed = false
		for i := 0; i < len(cur); i++ {
			cand := append(append([]pageOp{}, cur[:i]...), cur[i+1:]...)
			if _, f, _ := runPageCase(cand); f != nil && f.Clause == clause {
				cur, changed = cand, true
				i--
			}
		}
	}
	return cur
}

func runC12(cfg *runCfg) error {
	res := newResult("C12", cfg.seed)
	r := newRng(cfg.seed)
	dist := newDistinct()
	var coqCases []string
	res.Rule = "histories of 1-14 page-setting calls (SetPageSettings/SetPageSize/SetCustomPageSize/SetPageOrientation/SetPageMargins/SetHeaderFooterDistance/SetGutterWidth/SetDocGrid/ClearDocGrid/save+open, and calls that name no page setting: AddHeader/AddFooter/SetDifferentFirstPage/AddFooterWithPageNumber/AddParagraph/AddTable) from one splitmix64 stream; non-trivial = at least 2 accepted state-changing calls; distinct by hash of the op list"
	// fixed corpus first (past findings), then generated
	corpus := [][]pageOp{
		{{Kind: "SetCustom", A: []int64{100000, 200000}}, {Kind: "SetOrient", Name: "landscape"}, {Kind: "SetMargins", A: []int64{10000, 10000, 10000, 10000}}, {Kind: "SetGutter", A: []int64{5000}}},
		{{Kind: "SetCustom", A: []int64{297000, 210000}}, {Kind: "SetMargins", A: []int64{10000, 10000, 10000, 10000}}},
		{{Kind: "SetSize", Name: "Letter"}, {Kind: "SetOrient", Name: "landscape"}, {Kind: "SetOrient", Name: "landscape"}, {Kind: "Reopen"}, {Kind: "SetHF", A: []int64{7000, 9000}}},
		{{Kind: "SetCustom", A: []int64{210400, 297300}}, {Kind: "SetGutter", A: []int64{1000}}, {Kind: "Reopen"}},
		{{Kind: "ClearGrid"}, {Kind: "SetMargins", A: []int64{1000, 2000, 3000, 4000}}, {Kind: "SetGrid", T: "snapToChars", A: []int64{400, 12}}, {Kind: "ClearGrid"}, {Kind: "Reopen"}},
	}
	total := cfg.n
	for ci := 0; ci < total; ci++ {
		var ops []pageOp
		if ci < len(corpus) {
			ops = corpus[ci]
		} else {
			cr := r.fork()
			n := cr.rangeI(1, 14)
			for i := 0; i < n; i++ {
				ops = append(ops, genPageOp(cr))
			}
		}
		obs, fail, nOK := runPageCase(ops)
		res.Evaluations++
		for i, op := range ops {
			k := op.Kind
			if !obs[i].OK {
				k += ":rejected"
			}
			res.Histogram[k]++
		}
		if nOK >= 2 {
			dist.add(ops)
		}
		if fail != nil {
			sh := shrinkPage(ops, fail.Clause)
			_, f2, _ := runPageCase(sh)
			if f2 != nil {
				f2.Case, f2.CaseID = sh, ci
				res.OracleFailures = append(res.OracleFailures, *f2)
			}
		}
		var steps []string
		for i, op := range ops {
			steps = append(steps, "("+op.coq()+", "+obs[i].coq()+")")
		}
		coqCases = append(coqCases, cList(steps))
		res.Cases = append(res.Cases, ops)
		if len(res.Samples) < 3 && nOK >= 3 {
			res.Samples = append(res.Samples, map[string]interface{}{"ops": ops, "last_observation": fmt.Sprintf("%+v", obs[len(obs)-1])})
		}
	}
	res.DistinctNontrivial = dist.n()
	// float / exact-arithmetic agreement sweep: mmToTwips(twipsToMM(t)) prints t, and to_tw of decimal inputs
	sweepN := 2000
	if cfg.tier == "thorough" {
		sweepN = 31681
	}
	bad := 0
	for i := 0; i < sweepN; i++ {
		t := i
		if cfg.tier != "thorough" {
			t = r.intn(31681)
		}
		d := document.New()
		mm := float64(t) * twipMM
		if mm < 12.7 || mm > 558.8 {
			continue
		}
		if err := d.SetCustomPageSize(mm, mm); err != nil {
			continue
		}
		d.SetPageMargins(1, 1, 1, 1)
		o := observePage(d, true)
		if o.PG == nil || o.PG[0] != strconv.Itoa(t) {
			bad++
		}
	}
	res.Extra["twips_roundtrip_sweep"] = map[string]int{"checked": sweepN, "disagree": bad}
	if bad > 0 {
		res.Notes = append(res.Notes, fmt.Sprintf("float/exact disagreement on %d twips values", bad))
	}
	res.Shards = writeShards(cfg.out, "c12cases", "From Coq Require Import ZArith List String.\nFrom WZ Require Import Model.Page Corr.PageCorr.", "case", "mismatches", coqCases, 100)
	res.write(cfg.out)
	return nil
}
