package main

// Independent reader of a saved .docx package: own ZIP walk and encoding/xml *tokeniser*
// (never the library's reader).  Produces the projection the package-level properties talk
// about.

import (
	"archive/zip"
	"bytes"
	"encoding/xml"
	"fmt"
	"io"
	"path"
	"sort"
	"strings"
)

type RelV struct {
	ID, Type, Target, Mode string
}

type XNode struct {
	Name     string // local name
	Space    string
	Attrs    map[string]string // local name -> value (last wins); "space:local" also stored as prefix-less
	Children []*XNode
	Text     string // concatenated character data directly inside
}

type PkgView struct {
	Parts     map[string][]byte
	Names     []string // in archive order
	DupNames  []string
	Defaults  map[string]string // extension (lower) -> content type
	Overrides map[string]string // part name with leading "/" -> content type
	Rels      map[string][]RelV // rels part name -> relationships
	XMLErr    map[string]string // xml part -> well-formedness error
	Doc       *XNode            // parsed word/document.xml (nil if absent / ill-formed)
}

func isXMLPart(name string) bool {
	return strings.HasSuffix(name, ".xml") || strings.HasSuffix(name, ".rels")
}

// parseXML builds a generic tree with Go's strict decoder; an error means ill-formed.
func parseXML(data []byte) (*XNode, error) {
	// a byte order mark at the very start of the entity is not content (XML 1.0, 4.3.3)
	data = bytes.TrimPrefix(data, []byte("\xef\xbb\xbf"))
	dec := xml.NewDecoder(bytes.NewReader(data))
	dec.Strict = true
	var stack []*XNode
	var root *XNode
	for {
		tok, err := dec.Token()
		if err == io.EOF {
			break
		}
		if err != nil {
			return nil, err
		}
		switch t := tok.(type) {
		case xml.StartElement:
			n := &XNode{Name: t.Name.Local, Space: t.Name.Space, Attrs: map[string]string{}}
			// well-formedness constraint "unique attribute specification", which the decoder does not check
			seenAttr := map[xml.Name]bool{}
			for _, a := range t.Attr {
				if seenAttr[a.Name] {
					return nil, fmt.Errorf("attribute %s:%s given twice on element %s", a.Name.Space, a.Name.Local, t.Name.Local)
				}
				seenAttr[a.Name] = true
			}
			for _, a := range t.Attr {
				if a.Name.Space == "xmlns" || (a.Name.Space == "" && a.Name.Local == "xmlns") {
					continue // a namespace declaration, not an attribute
				}
				n.Attrs[a.Name.Local] = a.Value
			}
			if len(stack) > 0 {
				p := stack[len(stack)-1]
				p.Children = append(p.Children, n)
			} else {
				if root != nil {
					return nil, fmt.Errorf("two root elements")
				}
				root = n
			}
			stack = append(stack, n)
		case xml.EndElement:
			if len(stack) == 0 {
				return nil, fmt.Errorf("unbalanced end element")
			}
			stack = stack[:len(stack)-1]
		case xml.CharData:
			if len(stack) > 0 {
				stack[len(stack)-1].Text += string(t)
			} else if strings.TrimSpace(string(t)) != "" {
				return nil, fmt.Errorf("text outside the root element")
			}
		}
	}
	if len(stack) != 0 {
		return nil, fmt.Errorf("unclosed element %s", stack[len(stack)-1].Name)
	}
	if root == nil {
		return nil, fmt.Errorf("no root element")
	}
	return root, nil
}

func (n *XNode) walk(f func(*XNode)) {
	if n == nil {
		return
	}
	f(n)
	for _, c := range n.Children {
		c.walk(f)
	}
}

func (n *XNode) find(name string) []*XNode {
	var out []*XNode
	n.walk(func(x *XNode) {
		if x.Name == name {
			out = append(out, x)
		}
	})
	return out
}

func (n *XNode) child(name string) *XNode {
	if n == nil {
		return nil
	}
	for _, c := range n.Children {
		if c.Name == name {
			return c
		}
	}
	return nil
}

func readPackage(data []byte) (*PkgView, error) {
	zr, err := zip.NewReader(bytes.NewReader(data), int64(len(data)))
	if err != nil {
		return nil, fmt.Errorf("not a readable zip: %v", err)
	}
	v := &PkgView{Parts: map[string][]byte{}, Defaults: map[string]string{}, Overrides: map[string]string{}, Rels: map[string][]RelV{}, XMLErr: map[string]string{}}
	for _, f := range zr.File {
		rc, err := f.Open()
		if err != nil {
			return nil, fmt.Errorf("entry %s: %v", f.Name, err)
		}
		b, err := io.ReadAll(rc)
		rc.Close()
		if err != nil {
			return nil, fmt.Errorf("entry %s: %v", f.Name, err)
		}
		if _, dup := v.Parts[f.Name]; dup {
			v.DupNames = append(v.DupNames, f.Name)
		}
		v.Parts[f.Name] = b
		v.Names = append(v.Names, f.Name)
	}
	for name, b := range v.Parts {
		if !isXMLPart(name) {
			continue
		}
		root, err := parseXML(b)
		if err != nil {
			v.XMLErr[name] = err.Error()
			continue
		}
		switch {
		case name == "[Content_Types].xml":
			for _, c := range root.Children {
				switch c.Name {
				case "Default":
					v.Defaults[strings.ToLower(c.Attrs["Extension"])] = c.Attrs["ContentType"]
				case "Override":
					v.Overrides[c.Attrs["PartName"]] = c.Attrs["ContentType"]
				}
			}
		case strings.HasSuffix(name, ".rels"):
			var rs []RelV
			for _, c := range root.Children {
				if c.Name == "Relationship" {
					rs = append(rs, RelV{ID: c.Attrs["Id"], Type: c.Attrs["Type"], Target: c.Attrs["Target"], Mode: c.Attrs["TargetMode"]})
				}
			}
			v.Rels[name] = rs
		case name == "word/document.xml":
			v.Doc = root
		}
	}
	return v, nil
}

// sourceOfRels: "_rels/.rels" -> "" (package root); "word/_rels/document.xml.rels" -> "word/document.xml"
func sourceOfRels(relsName string) string {
	dir, file := path.Split(relsName)
	dir = strings.TrimSuffix(dir, "_rels/")
	return dir + strings.TrimSuffix(file, ".rels")
}

// resolveTarget resolves a relationship target against the directory of the source part.
func resolveTarget(relsName, target string) string {
	if strings.HasPrefix(target, "/") {
		return strings.TrimPrefix(path.Clean(target), "/")
	}
	src := sourceOfRels(relsName)
	return path.Clean(path.Join(path.Dir(src), target))
}

func relKind(t string) string {
	i := strings.LastIndex(t, "/")
	if i < 0 {
		return t
	}
	return t[i+1:]
}

func (v *PkgView) contentTypeOf(name string) string {
	if ct, ok := v.Overrides["/"+name]; ok {
		return ct
	}
	ext := strings.ToLower(strings.TrimPrefix(path.Ext(name), "."))
	if ext != "" {
		if ct, ok := v.Defaults[ext]; ok {
			return ct
		}
	}
	return ""
}

// ---- oracle clauses shared by the package-level properties --------------------------------------

// checkC01 returns the clauses of C01 that fail on this package.
func (v *PkgView) checkC01() []string {
	var bad []string
	for _, n := range sortedStrKeys(v.XMLErr) {
		bad = append(bad, fmt.Sprintf("xml_wf: part %s is not well-formed: %s", n, v.XMLErr[n]))
	}
	if len(v.DupNames) > 0 {
		bad = append(bad, fmt.Sprintf("part_names_distinct: duplicate entries %v", v.DupNames))
	}
	if _, ok := v.Parts["[Content_Types].xml"]; !ok {
		bad = append(bad, "content_types_present: [Content_Types].xml missing")
	}
	pr, ok := v.Rels["_rels/.rels"]
	if !ok {
		bad = append(bad, "package_rels_present: _rels/.rels missing")
	}
	nMain := 0
	for _, r := range pr {
		if relKind(r.Type) == "officeDocument" {
			nMain++
			if _, ok := v.Parts[resolveTarget("_rels/.rels", r.Target)]; !ok {
				bad = append(bad, "main_part: officeDocument target "+r.Target+" is not a part")
			}
		}
	}
	if nMain != 1 {
		bad = append(bad, fmt.Sprintf("main_part: %d officeDocument relationships", nMain))
	}
	for _, n := range v.Names {
		if n == "[Content_Types].xml" {
			continue
		}
		if v.contentTypeOf(n) == "" {
			bad = append(bad, "content_type_cover: part "+n+" has no content type")
		}
	}
	return bad
}

var bodyRefKinds = map[string]string{"headerReference": "header", "footerReference": "footer", "blip": "image"}

// checkC02 returns the clauses of C02 that fail.
func (v *PkgView) checkC02() []string {
	var bad []string
	for _, rn := range sortedRelNames(v.Rels) {
		seen := map[string]bool{}
		for _, r := range v.Rels[rn] {
			if seen[r.ID] {
				bad = append(bad, fmt.Sprintf("ids_unique: %s has two relationships with Id %s", rn, r.ID))
			}
			seen[r.ID] = true
			if r.Mode == "External" {
				continue
			}
			tgt := resolveTarget(rn, r.Target)
			if _, ok := v.Parts[tgt]; !ok {
				bad = append(bad, fmt.Sprintf("targets_exist: %s: %s (%s) -> %s which is not a part", rn, r.ID, relKind(r.Type), tgt))
			}
		}
	}
	// relationships are attached to the part that uses them: parts under word/ used by the main part
	for _, r := range v.Rels["_rels/.rels"] {
		switch relKind(r.Type) {
		case "footnotes", "endnotes", "settings", "numbering", "styles", "image", "header", "footer", "fontTable", "theme":
			bad = append(bad, fmt.Sprintf("attached_to_user: %s relationship %s is in the package relationships", relKind(r.Type), r.ID))
		}
	}
	if v.Doc != nil {
		docRels := map[string]RelV{}
		for _, r := range v.Rels["word/_rels/document.xml.rels"] {
			docRels[r.ID] = r
		}
		check := func(kind, id, what string) {
			r, ok := docRels[id]
			if !ok {
				bad = append(bad, fmt.Sprintf("refs_resolve: %s uses %s which is not a document relationship", what, id))
			} else if relKind(r.Type) != kind {
				bad = append(bad, fmt.Sprintf("refs_resolve: %s uses %s which is a %s relationship", what, id, relKind(r.Type)))
			}
		}
		v.Doc.walk(func(n *XNode) {
			switch n.Name {
			case "headerReference":
				check("header", n.Attrs["id"], "w:headerReference")
			case "footerReference":
				check("footer", n.Attrs["id"], "w:footerReference")
			case "blip":
				if e, ok := n.Attrs["embed"]; ok {
					check("image", e, "a:blip")
				}
			}
		})
	}
	return bad
}

func sortedStrKeys(m map[string]string) []string {
	var ks []string
	for k := range m {
		ks = append(ks, k)
	}
	sort.Strings(ks)
	return ks
}

func sortedRelNames(m map[string][]RelV) []string {
	var ks []string
	for k := range m {
		ks = append(ks, k)
	}
	sort.Strings(ks)
	return ks
}

// texts of all w:t under a node, concatenated in document order
func (n *XNode) runText() string {
	var b strings.Builder
	n.walk(func(x *XNode) {
		if x.Name == "t" {
			b.WriteString(x.Text)
		}
	})
	return b.String()
}
