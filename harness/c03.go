package main

import (
	"bytes"
	"encoding/xml"
	"fmt"
	"io"
	"os"
	"path/filepath"
	"reflect"
	"strings"

	"github.com/zerx-lab/wordZero/pkg/document"
)

func init() { props["C03"] = runC03 }

var rtTexts = []string{"plain", " leading", "trailing ", "  both  ", "tab\tinside", "\tlead tab", "new\nline", "ünïcödé 中文 🎉", "a<b&c>\"d'", "", "   ", "x  y"}
var colors = []string{"FF0000", "00FF00", "1F2E3D", "auto"}
var fonts = []string{"Arial", "宋体", "Times New Roman"}
var aligns = []document.AlignmentType{document.AlignLeft, document.AlignCenter, document.AlignRight, document.AlignJustify}

type docFeat struct{ feats map[string]int }

func (f *docFeat) hit(s string) { f.feats[s]++ }

func genFormat(r *rng) *document.TextFormat {
	tf := &document.TextFormat{}
	if r.chance(40) {
		tf.Bold = true
	}
	if r.chance(30) {
		tf.Italic = true
	}
	if r.chance(40) {
		tf.FontSize = r.rangeI(6, 48)
	}
	if r.chance(30) {
		tf.FontColor = colors[r.intn(len(colors))]
	}
	if r.chance(30) {
		tf.FontFamily = fonts[r.intn(len(fonts))]
	}
	if r.chance(25) {
		tf.Underline = true
	}
	if r.chance(20) {
		tf.Strike = true
	}
	if r.chance(20) {
		tf.Highlight = []string{"yellow", "green", "cyan"}[r.intn(3)]
	}
	return tf
}

func styleParagraph(r *rng, p *document.Paragraph, f *docFeat) {
	for i, n := 0, r.intn(5); i < n; i++ {
		switch r.intn(20) {
		case 0:
			p.SetAlignment(aligns[r.intn(4)])
			f.hit("SetAlignment")
		case 1:
			p.SetSpacing(&document.SpacingConfig{LineSpacing: []float64{1, 1.5, 2, 0}[r.intn(4)], BeforePara: r.intn(30), AfterPara: r.intn(30), FirstLineIndent: r.intn(40)})
			f.hit("SetSpacing")
		case 2:
			p.AddFormattedText(rtTexts[r.intn(len(rtTexts))], genFormat(r))
			f.hit("AddFormattedText")
		case 3:
			p.AddPageBreak()
			f.hit("Paragraph.AddPageBreak")
		case 4:
			p.SetStyle([]string{"Quote", "Heading2", "Normal", "CodeBlock"}[r.intn(4)])
			f.hit("SetStyle")
		case 5:
			p.SetIndentation(float64(r.rangeI(-2, 3)), float64(r.intn(3)), float64(r.intn(3)))
			f.hit("SetIndentation")
		case 6:
			p.SetKeepWithNext(r.chance(80))
			f.hit("SetKeepWithNext")
		case 7:
			p.SetKeepLines(r.chance(80))
			f.hit("SetKeepLines")
		case 8:
			p.SetPageBreakBefore(r.chance(80))
			f.hit("SetPageBreakBefore")
		case 9:
			p.SetWidowControl(r.chance(50))
			f.hit("SetWidowControl")
		case 10:
			p.SetOutlineLevel(r.intn(9))
			f.hit("SetOutlineLevel")
		case 11:
			p.SetSnapToGrid(r.chance(50))
			f.hit("SetSnapToGrid")
		case 12:
			b := true
			p.SetParagraphFormat(&document.ParagraphFormatConfig{Alignment: aligns[r.intn(4)], LineSpacing: 1.5, BeforePara: 6, KeepWithNext: r.chance(50), KeepLines: r.chance(50), PageBreakBefore: r.chance(30), WidowControl: r.chance(50), SnapToGrid: &b, OutlineLevel: r.intn(4), LeftCm: 1})
			f.hit("SetParagraphFormat")
		case 13:
			bc := &document.ParagraphBorderConfig{Style: document.BorderStyleSingle, Size: r.rangeI(4, 24), Color: colors[r.intn(3)], Space: r.intn(4)}
			p.SetBorder(bc, nil, bc, nil)
			f.hit("SetBorder")
		case 14:
			p.SetHorizontalRule(document.BorderStyleDouble, 12, "000000")
			f.hit("SetHorizontalRule")
		case 15:
			p.SetBold(r.chance(70))
			p.SetItalic(r.chance(50))
			f.hit("SetBold/Italic")
		case 16:
			p.SetUnderline(r.chance(70))
			p.SetStrike(r.chance(50))
			f.hit("SetUnderline/Strike")
		case 17:
			p.SetHighlight("yellow")
			p.SetColor(colors[r.intn(len(colors))])
			f.hit("SetHighlight/Color")
		case 18:
			p.SetFontFamily(fonts[r.intn(len(fonts))])
			p.SetFontSize(r.rangeI(8, 40))
			f.hit("SetFontFamily/Size")
		}
	}
}

func buildRichDoc(r *rng, f *docFeat) *document.Document {
	d := document.New()
	n := r.rangeI(1, 9)
	for i := 0; i < n; i++ {
		if r.chance(3) {
			// a formula paragraph, inline or block; its content is kept as it is written (raw OMML, entities, blanks)
			mp := d.AddMathFormula([]string{"<m:r><m:t>x^2 + y^2</m:t></m:r>", "<m:f><m:num><m:r><m:t>a &lt; b &amp; c</m:t></m:r></m:num><m:den><m:r><m:t xml:space=\"preserve\"> 2 </m:t></m:r></m:den></m:f>", "plain text formula", "", "<m:r/>"}[r.intn(5)], r.chance(50))
			if r.chance(40) {
				mp.Runs = append(mp.Runs, document.Run{Text: document.Text{Content: "see ", Space: "preserve"}})
			}
			f.hit("AddMathFormula")
			continue
		}
		switch r.pick([]int{22, 14, 8, 4, 18, 8, 8, 4, 6, 4, 4}) {
		case 0:
			p := d.AddParagraph(rtTexts[r.intn(len(rtTexts))])
			f.hit("AddParagraph")
			styleParagraph(r, p, f)
		case 1:
			p := d.AddFormattedParagraph(rtTexts[r.intn(len(rtTexts))], genFormat(r))
			f.hit("AddFormattedParagraph")
			styleParagraph(r, p, f)
		case 2:
			d.AddHeadingParagraph(rtTexts[r.intn(len(rtTexts))], r.rangeI(1, 9))
			f.hit("AddHeadingParagraph")
		case 3:
			d.AddPageBreak()
			f.hit("AddPageBreak")
		case 4:
			buildRichTable(r, d, f, 0)
		case 5:
			w, h := imgDims(4)
			cfg := &document.ImageConfig{}
			switch r.intn(4) {
			case 0:
				cfg = nil
			case 1:
				cfg.Size = &document.ImageSize{Width: float64(r.rangeI(10, 80)), KeepAspectRatio: true}
				cfg.Alignment = aligns[r.intn(3)]
				cfg.AltText, cfg.Title = "alt <&>", "title"
			case 2, 3:
				// floating: both sides, every kind of text wrapping (and none given), offsets given or not
				cfg.Position = []document.ImagePosition{document.ImagePositionFloatLeft, document.ImagePositionFloatRight}[r.intn(2)]
				cfg.WrapText = []document.ImageWrapText{document.ImageWrapSquare, document.ImageWrapTight, document.ImageWrapNone, document.ImageWrapTopAndBottom, ""}[r.intn(5)]
				if r.chance(50) {
					cfg.Size = &document.ImageSize{Width: 30, Height: 20}
				}
				if r.chance(50) {
					cfg.OffsetX, cfg.OffsetY = float64(r.rangeI(-3, 9)), float64(r.rangeI(0, 9))
				}
			}
			d.AddImageFromData(imageBytes("png", 4), "p.png", document.ImageFormatPNG, w, h, cfg)
			f.hit("AddImageFromData")
		case 6:
			d.AddListItem(rtTexts[r.intn(len(rtTexts))], &document.ListConfig{Type: listTypes[r.intn(7)], BulletSymbol: bulletSyms[r.intn(5)], StartNumber: r.intn(5), IndentLevel: r.intn(4)})
			f.hit("AddListItem")
		case 7:
			switch r.intn(4) {
			case 0:
				d.SetPageMargins(float64(r.rangeI(5, 40)), 20, 20, 20)
			case 1:
				d.SetPageOrientation(document.OrientationLandscape)
			case 2:
				d.SetCustomPageSize(float64(r.rangeI(100, 300)), float64(r.rangeI(100, 400)))
			case 3:
				d.SetDocGrid(document.DocGridSnapToChars, 360, 10)
			}
			f.hit("page settings")
		case 8:
			d.AddHeader(document.HeaderFooterTypeDefault, "head")
			d.AddFooterWithPageNumber(document.HeaderFooterTypeDefault, "p", true)
			d.SetDifferentFirstPage(r.chance(50))
			f.hit("header/footer")
		case 9:
			d.AddHeadingParagraphWithBookmark("bm", 2, "mark1")
			f.hit("AddHeadingParagraphWithBookmark")
		case 10:
			d.AddFootnote("note ref", "note text")
			f.hit("AddFootnote")
		}
	}
	return d
}

func buildRichTable(r *rng, d *document.Document, f *docFeat, depth int) {
	nr, nc := r.rangeI(1, 4), r.rangeI(1, 4)
	cfg := &document.TableConfig{Rows: nr, Cols: nc, Width: 1200 * nc}
	if r.chance(30) {
		for i := 0; i < nc; i++ {
			cfg.ColWidths = append(cfg.ColWidths, 800+300*i)
		}
	}
	t, err := d.AddTable(cfg)
	if err != nil {
		return
	}
	f.hit("AddTable")
	decorateTable(r, d, t, f, depth)
}

func decorateTable(r *rng, d *document.Document, t *document.Table, f *docFeat, depth int) {
	nr, nc := t.GetRowCount(), t.GetColumnCount()
	for i, n := 0, r.intn(7); i < n; i++ {
		ri, ci := r.intn(nr), r.intn(nc)
		if ri >= len(t.Rows) || ci >= len(t.Rows[ri].Cells) {
			continue
		}
		switch r.intn(20) {
		case 0:
			t.SetCellText(ri, ci, rtTexts[r.intn(len(rtTexts))])
			f.hit("SetCellText")
		case 1:
			t.SetCellFormattedText(ri, ci, rtTexts[r.intn(len(rtTexts))], genFormat(r))
			f.hit("SetCellFormattedText")
		case 2:
			t.AddCellFormattedText(ri, ci, rtTexts[r.intn(len(rtTexts))], genFormat(r))
			f.hit("AddCellFormattedText")
		case 3:
			t.SetCellFormat(ri, ci, &document.CellFormat{TextFormat: genFormat(r), HorizontalAlign: document.CellAlignCenter, VerticalAlign: document.CellVAlignBottom, BackgroundColor: "EEEEEE", Padding: r.intn(10)})
			f.hit("SetCellFormat")
		case 4:
			if nc >= 2 && depth == 0 && len(t.Rows[ri].Cells) == nc {
				a := r.intn(nc - 1)
				if t.MergeCellsHorizontal(ri, a, a+1) == nil {
					f.hit("MergeCellsHorizontal")
					return // no further structural decoration on a merged table
				}
			}
		case 5:
			if nr >= 2 {
				a := r.intn(nr - 1)
				ok := true
				for _, row := range t.Rows {
					if len(row.Cells) != nc {
						ok = false
					}
				}
				if ok && t.MergeCellsVertical(a, a+1, ci) == nil {
					f.hit("MergeCellsVertical")
				}
			}
		case 6:
			t.SetCellTextDirection(ri, ci, document.TextDirectionTB)
			f.hit("SetCellTextDirection")
		case 7:
			t.SetRowHeight(ri, &document.RowHeightConfig{Height: r.rangeI(10, 40), Rule: document.RowHeightExact})
			f.hit("SetRowHeight")
		case 8:
			t.SetTableAlignment(document.TableAlignCenter)
			t.SetTableLayout(&document.TableLayoutConfig{Alignment: document.TableAlignRight})
			f.hit("SetTableAlignment/Layout")
		case 9:
			t.SetRowAsHeader(0, true)
			t.SetRowKeepTogether(ri, true)
			f.hit("SetRowAsHeader/KeepTogether")
		case 10:
			bc := &document.BorderConfig{Style: document.BorderStyleSingle, Width: 8, Color: "FF0000", Space: 0}
			t.SetTableBorders(&document.TableBorderConfig{Top: bc, Bottom: bc, InsideH: bc})
			f.hit("SetTableBorders")
		case 11:
			bc := &document.BorderConfig{Style: document.BorderStyleDashed, Width: 4, Color: "0000FF"}
			t.SetCellBorders(ri, ci, &document.CellBorderConfig{Top: bc, Left: bc, DiagDown: bc})
			f.hit("SetCellBorders")
		case 12:
			t.SetCellShading(ri, ci, &document.ShadingConfig{Pattern: document.ShadingPatternClear, BackgroundColor: "CCCCCC", ForegroundColor: "000000"})
			t.SetTableShading(&document.ShadingConfig{Pattern: document.ShadingPatternClear, BackgroundColor: "F0F0F0"})
			f.hit("SetCellShading/TableShading")
		case 13:
			t.AddCellParagraph(ri, ci, rtTexts[r.intn(len(rtTexts))])
			f.hit("AddCellParagraph")
		case 14:
			t.AddCellFormattedParagraph(ri, ci, rtTexts[r.intn(len(rtTexts))], genFormat(r))
			f.hit("AddCellFormattedParagraph")
		case 15:
			if depth < 2 {
				if nt, err := t.AddNestedTable(ri, ci, &document.TableConfig{Rows: r.rangeI(1, 2), Cols: r.rangeI(1, 2), Width: 1500}); err == nil {
					nt.SetCellText(0, 0, "nested "+rtTexts[r.intn(len(rtTexts))])
					f.hit("AddNestedTable")
				}
			}
		case 16:
			t.AddCellList(ri, ci, &document.CellListConfig{Type: document.ListTypeBullet, BulletSymbol: document.BulletTypeDot, Items: []string{"i1", " i2 "}})
			f.hit("AddCellList")
		case 17:
			d.AddCellImage(t, ri, ci, &document.CellImageConfig{Data: imageBytes("png", 6), Width: 15, KeepAspectRatio: true, AltText: "cell img"})
			f.hit("AddCellImage")
		case 18:
			t.SetCellPadding(ri, ci, r.intn(12))
			f.hit("SetCellPadding")
		case 19:
			t.ApplyTableStyle(&document.TableStyleConfig{StyleID: "a1", FirstRowHeader: true, BandedRows: true})
			f.hit("ApplyTableStyle")
		}
	}
}

// bodyDump: the body as a tree; the section settings are moved to the end (that is where Save
// writes them, whatever their position in Body.Elements)
func bodyDump(d *document.Document) *dnode {
	var els, sect []interface{}
	for _, e := range d.Body.Elements {
		if _, ok := e.(*document.SectionProperties); ok {
			sect = []interface{}{e}
		} else {
			els = append(els, e)
		}
	}
	return dumpValue(reflect.ValueOf(append(els, sect...)))
}

func reopen(d *document.Document) (*document.Document, []byte, error) {
	// saving reads the document: the body holds the same elements in the same order afterwards
	sig := func() string {
		var b strings.Builder
		for _, e := range d.Body.Elements {
			fmt.Fprintf(&b, "%T@%p ", e, e)
		}
		return b.String()
	}
	before := sig()
	data, err := d.ToBytes()
	if err != nil {
		return nil, nil, err
	}
	if after := sig(); after != before {
		return nil, nil, fmt.Errorf("saving changed the body of the document in memory: %s -> %s", before, after)
	}
	nd, err := document.OpenFromMemory(io.NopCloser(bytes.NewReader(data)))
	return nd, data, err
}

func mainPartTree(data []byte) (*XNode, error) {
	v, err := readPackage(data)
	if err != nil {
		return nil, err
	}
	if v.Doc == nil {
		return nil, fmt.Errorf("main part: %v", v.XMLErr)
	}
	return v.Doc, nil
}

// ---- stream B: values populated field by field through reflection --------------------------------

var reflTokens = []string{"1", "12", "240", "single", "auto", "FF0000", "left", "x y", " v ", "中"}

func reflFill(r *rng, v reflect.Value, depth int, density int) {
	t := v.Type()
	for i := 0; i < t.NumField(); i++ {
		f := t.Field(i)
		tag := f.Tag.Get("xml")
		if f.PkgPath != "" || f.Name == "XMLName" || tag == "" || tag == "-" || strings.HasPrefix(tag, "xmlns") {
			continue
		}
		fv := v.Field(i)
		// attributes and character data are always given a value: an element without its value is not
		// something the API produces (the reader treats it as absent)
		// the reader creates the (content-free) fillRect and avLst together with their parents
		always := t.Name() == "Stretch" || t.Name() == "PrstGeom"
		if fv.Kind() != reflect.String && !always && !r.chance(density) {
			continue
		}
		switch fv.Kind() {
		case reflect.String:
			fv.SetString(reflTokens[r.intn(len(reflTokens))])
		case reflect.Ptr:
			if fv.Type().Elem().Kind() == reflect.Struct && depth > 0 {
				nv := reflect.New(fv.Type().Elem())
				reflFill(r, nv.Elem(), depth-1, density)
				fv.Set(nv)
			}
		case reflect.Struct:
			if depth > 0 {
				reflFill(r, fv, depth-1, density)
			}
		case reflect.Slice:
			et := fv.Type().Elem()
			if et.Kind() == reflect.Struct && depth > 0 {
				n := r.rangeI(1, 2)
				sl := reflect.MakeSlice(fv.Type(), n, n)
				for k := 0; k < n; k++ {
					reflFill(r, sl.Index(k), depth-1, density)
				}
				fv.Set(sl)
			} else if et.Kind() == reflect.Ptr && et.Elem().Kind() == reflect.Struct && depth > 0 {
				n := r.rangeI(1, 2)
				sl := reflect.MakeSlice(fv.Type(), n, n)
				for k := 0; k < n; k++ {
					nv := reflect.New(et.Elem())
					reflFill(r, nv.Elem(), depth-1, density)
					sl.Index(k).Set(nv)
				}
				fv.Set(sl)
			}
		}
	}
}

func buildReflDoc(r *rng) *document.Document {
	d := document.New()
	n := r.rangeI(1, 3)
	density := []int{15, 35, 60}[r.intn(3)]
	for i := 0; i < n; i++ {
		switch r.intn(3) {
		case 0, 1:
			p := &document.Paragraph{}
			reflFill(r, reflect.ValueOf(p).Elem(), 9, density)
			d.Body.Elements = append(d.Body.Elements, p)
		case 2:
			t := &document.Table{}
			reflFill(r, reflect.ValueOf(t).Elem(), 7, density)
			d.Body.Elements = append(d.Body.Elements, t)
		}
	}
	if r.chance(25) {
		d.Body.Elements = append(d.Body.Elements, reflSDT(r, 2, density))
	}
	if r.chance(50) {
		sp := &document.SectionProperties{}
		reflFill(r, reflect.ValueOf(sp).Elem(), 3, 50)
		// one reference per kind: a second reference of the same type replaces the first (C11)
		if len(sp.HeaderReferences) > 1 {
			sp.HeaderReferences = sp.HeaderReferences[:1]
		}
		if len(sp.FooterReferences) > 1 {
			sp.FooterReferences = sp.FooterReferences[:1]
		}
		d.Body.Elements = append(d.Body.Elements, sp)
	}
	return d
}

// reflSDT: a structured document tag whose content mixes every element kind its reader reacts to
func reflSDT(r *rng, depth int, density int) *document.SDT {
	s := &document.SDT{}
	reflFill(r, reflect.ValueOf(s).Elem(), 5, density)
	if s.Content == nil && r.chance(80) {
		s.Content = &document.SDTContent{}
	}
	if s.Content == nil {
		return s
	}
	for i, n := 0, r.intn(4); i < n; i++ {
		switch r.intn(6) {
		case 0:
			p := &document.Paragraph{}
			reflFill(r, reflect.ValueOf(p).Elem(), 6, density)
			s.Content.Elements = append(s.Content.Elements, p)
		case 1:
			t := &document.Table{}
			reflFill(r, reflect.ValueOf(t).Elem(), 5, density)
			s.Content.Elements = append(s.Content.Elements, t)
		case 2:
			run := document.Run{}
			reflFill(r, reflect.ValueOf(&run).Elem(), 4, density)
			s.Content.Elements = append(s.Content.Elements, run)
		case 3:
			s.Content.Elements = append(s.Content.Elements, &document.BookmarkStart{ID: reflTokens[r.intn(3)], Name: "_Toc" + reflTokens[r.intn(3)]})
		case 4:
			s.Content.Elements = append(s.Content.Elements, &document.BookmarkEnd{ID: reflTokens[r.intn(3)]})
		case 5:
			if depth > 0 {
				s.Content.Elements = append(s.Content.Elements, reflSDT(r, depth-1, density))
			}
		}
	}
	return s
}

// ---- stream C: the elements the reader is known to drop ------------------------------------------

func buildSpecialDoc(r *rng, kind int) *document.Document {
	d := document.New()
	d.AddHeadingParagraph("One", 1)
	d.AddParagraph("text")
	d.AddHeadingParagraph("Two", 2)
	switch kind {
	case 0:
		_ = d.GenerateTOC(&document.TOCConfig{Title: "Contents", MaxLevel: 3, ShowPageNum: true, DotLeader: true})
	case 1:
		d.AddMathFormula("x^2 + y^2", r.chance(50))
	}
	d.AddParagraph("tail")
	return d
}

// ---- stream T: character data through encoding/xml ------------------------------------------------

func genXMLText(r *rng) string {
	var b strings.Builder
	for i, n := 0, r.intn(24); i < n; i++ {
		switch r.intn(12) {
		case 0:
			b.WriteByte(' ')
		case 1:
			b.WriteByte('\t')
		case 2:
			b.WriteByte('\n')
		case 3:
			b.WriteByte('\r')
		case 4:
			b.WriteString([]string{"<", ">", "&", "\"", "'"}[r.intn(5)])
		case 5:
			b.WriteString([]string{"&amp;", "&#65;", "&lt;", "]]>", "<!--", "\r\n"}[r.intn(6)])
		case 6:
			b.WriteString([]string{"中", "é", "🎉", "\u00a0", "\u2028"}[r.intn(5)])
		case 7:
			if r.chance(20) {
				b.WriteByte(byte(r.intn(32))) // control characters: become U+FFFD
			} else {
				b.WriteByte('~')
			}
		default:
			b.WriteByte(byte('a' + r.intn(26)))
		}
	}
	return b.String()
}

type xmlTextCase struct {
	in, esc, dec []byte
}

func runXMLText(s string) (xmlTextCase, error) {
	var buf bytes.Buffer
	if err := xml.EscapeText(&buf, []byte(s)); err != nil {
		return xmlTextCase{}, err
	}
	esc := append([]byte(nil), buf.Bytes()...)
	dec := xml.NewDecoder(bytes.NewReader(append(append([]byte("<t>"), esc...), []byte("</t>")...)))
	var out []byte
	for {
		tok, err := dec.Token()
		if err == io.EOF {
			break
		}
		if err != nil {
			return xmlTextCase{}, err
		}
		if cd, ok := tok.(xml.CharData); ok {
			out = append(out, cd...)
		}
	}
	return xmlTextCase{[]byte(s), esc, out}, nil
}

func xnodeEqual(a, b *XNode) bool {
	if a == nil || b == nil {
		return a == b
	}
	return reflect.DeepEqual(a, b)
}

func classifyLoss(before, after *dnode, diffs []string) string {
	k := lossKey(diffs[0])
	switch {
	case before.hasType("SDT") && !after.hasType("SDT"):
		return "q_sdt_dropped_on_open"
	case before.hasType("MathParagraph"):
		return "q_math_dropped_on_open"
	}
	return "loss:" + k
}

func runC03(cfg *runCfg) error {
	res := newResult("C03", cfg.seed)
	r := newRng(cfg.seed + 303)
	feat := &docFeat{feats: map[string]int{}}
	fieldsHit := map[string]int{}
	dist := newDistinct()
	var cases []string
	caseIDs := []int{}
	nRich := cfg.n
	nRefl := cfg.n / 2
	total := nRich + nRefl + 2
	failCount := map[string]int{}
	for ci := 0; ci < total; ci++ {
		cr := r.fork()
		var d *document.Document
		kind := "api"
		switch {
		case ci < 2:
			d = buildSpecialDoc(cr, ci)
			kind = []string{"toc", "math"}[ci]
		case ci < 2+nRich:
			d = buildRichDoc(cr, feat)
		default:
			d = buildReflDoc(cr)
			kind = "reflect"
		}
		feat.hit("doc:" + kind)
		before := bodyDump(d)
		before.fieldsSet(fieldsHit)
		if before.hasType("SDT") {
			feat.hit("body:structured document tag")
		}
		res.Evaluations++
		fail := func(clause, class, detail string) {
			failCount[class]++
			if failCount[class] <= 5 {
				res.OracleFailures = append(res.OracleFailures, OracleFailure{Clause: clause, Class: class, Detail: fmt.Sprintf("%s document: %s", kind, detail), CaseID: ci})
			}
		}
		d2, data1, err := reopen(d)
		if err != nil {
			fail("reopens", "reopen_error", err.Error())
			continue
		}
		after := bodyDump(d2)
		var diffs []string
		diffNodes("", before, after, &diffs, 20)
		if len(diffs) > 0 {
			fail("same_body", classifyLoss(before, after, diffs), strings.Join(diffs[:min(3, len(diffs))], " | "))
		}
		d3, data2, err := reopen(d2)
		if err != nil {
			fail("reopens", "reopen_error", "second cycle: "+err.Error())
			continue
		}
		after2 := bodyDump(d3)
		var d23 []string
		diffNodes("", after, after2, &d23, 10)
		if len(d23) > 0 {
			fail("cycle_stable", "cycle:"+lossKey(d23[0]), strings.Join(d23[:min(3, len(d23))], " | "))
		}
		// the main part written by the second save is the same tree as the one written by the first, when the
		// first cycle lost nothing
		if len(diffs) == 0 {
			t1, e1 := mainPartTree(data1)
			t2, e2 := mainPartTree(data2)
			if e1 != nil || e2 != nil {
				fail("main_part_parses", "main_part_unreadable", fmt.Sprint(e1, e2))
			} else if !xnodeEqual(t1, t2) {
				fail("resave_same", "resave_differs", "word/document.xml of the second save differs from the first")
			}
			d4, data3, err := reopen(d3)
			if err == nil {
				t3, e3 := mainPartTree(data3)
				if e3 != nil || !xnodeEqual(t2, t3) {
					fail("resave_same", "resave_differs", "word/document.xml of the third save differs from the second")
				}
				_ = d4
			}
		}
		// a formula paragraph is written under the element name of ordinary paragraphs and read back as one: such a
		// body does not conform to the schema (Model/Schema.v not_misread) and is left to the oracle
		if !before.hasType("MathParagraph") {
			cases = append(cases, fmt.Sprintf("mkCase (%s)\n (%s)\n (%s)", bodySt(before), bodySt(after), bodySt(after2)))
			caseIDs = append(caseIDs, ci)
		}
		if len(before.Elems) >= 2 {
			dist.add(before.toSt(false))
		}
	}
	// character data
	var tcases []string
	nText := cfg.n * 3
	ctl := 0
	for i := 0; i < nText; i++ {
		s := genXMLText(r)
		tc, err := runXMLText(s)
		res.Evaluations++
		if err != nil {
			res.OracleFailures = append(res.OracleFailures, OracleFailure{Clause: "text_decodes", Class: "xml_text_error", Detail: fmt.Sprintf("%q: %v", s, err), CaseID: i})
			continue
		}
		legal := true
		for _, c := range tc.in {
			if c < 32 && c != 9 && c != 10 && c != 13 {
				legal = false
			}
		}
		if !legal {
			ctl++
		}
		if legal && !bytes.Equal(tc.in, tc.dec) {
			res.OracleFailures = append(res.OracleFailures, OracleFailure{Clause: "text_exact", Class: "xml_text_changed", Detail: fmt.Sprintf("%q came back as %q", tc.in, tc.dec), CaseID: i})
		}
		tcases = append(tcases, fmt.Sprintf("(%s, %s, %s)", cBytes(tc.in), cBytes(tc.esc), cBytes(tc.dec)))
		dist.add(s)
	}
	res.DistinctNontrivial = dist.n()
	res.Histogram = feat.feats
	res.Extra["fields_exercised"] = len(fieldsHit)
	res.Extra["fields_exercised_list"] = sortedSet(fieldsHit)
	res.Extra["text_cases"] = len(tcases)
	res.Extra["text_cases_with_control_characters"] = ctl
	res.Extra["document_cases"] = len(cases)
	res.Extra["document_case_ids"] = caseIDs
	files := writeShardsPlain(cfg.out, "c03cases", "From Coq Require Import String List.\nFrom WZ Require Import Model.Schema Corr.SchemaCorr.\nImport ListNotations.\nOpen Scope string_scope.\n", "case", "mismatches", cases, 25)
	files = append(files, writeShardsPlain(cfg.out, "c03text", "From Coq Require Import List NArith.\nFrom WZ Require Import Model.XmlText Corr.XmlTextCorr.\nImport ListNotations.\n", "(list N * list N * list N)", "mismatches", tcases, 400)...)
	res.Shards = files
	res.write(cfg.out)
	return nil
}

// writeShardsPlain: like writeShards, with the scopes left to the header
func writeShardsPlain(dir, prefix, header, caseTy, mismatchFn string, cases []string, per int) []string {
	var files []string
	for k := 0; k*per < len(cases); k++ {
		lo, hi := k*per, (k+1)*per
		if hi > len(cases) {
			hi = len(cases)
		}
		var b strings.Builder
		b.WriteString(header)
		fmt.Fprintf(&b, "(* cases %d..%d *)\nDefinition cases : list %s := [\n", lo, hi-1, caseTy)
		b.WriteString(strings.Join(cases[lo:hi], ";\n"))
		b.WriteString("\n].\n")
		fmt.Fprintf(&b, "Definition M := Eval vm_compute in %s cases.\nPrint M.\n", mismatchFn)
		name := fmt.Sprintf("%s_%03d.v", prefix, k)
		if err := os.WriteFile(filepath.Join(dir, name), []byte(b.String()), 0644); err != nil {
			panic(err)
		}
		files = append(files, name)
	}
	return files
}
