package main

// C20: Word-to-Markdown export keeps reading order and text, and is stable.
//
// Documents are generated from the elements the exporter recognises (headings, paragraphs with formatted runs,
// quotes, code lines, list items, tables, empty paragraphs, in any interleaving).  Oracle: the exported Markdown is
// converted back (Converter.ConvertString) and the block sequence, the text and the run formatting of the result are
// compared with the original; a second export must reproduce the Markdown.
// Correspondence (Corr/MdWriteCorr.v): the document's blocks go to the model of the writer; the model's Markdown is
// compared with the exporter's, under every option combination.

import (
	"fmt"
	"os"
	"path/filepath"
	"regexp"
	"strings"
	"unicode"

	"github.com/zerx-lab/wordZero/pkg/document"
	"github.com/zerx-lab/wordZero/pkg/markdown"
)

func init() { props["C20"] = runC20 }

type wRun struct {
	text                       string
	bold, italic, strike, code bool
}
type wBlock struct {
	kind  string // heading para quote code item table empty
	level int
	runs  []wRun
	rows  [][]string
}

var c20Words = []string{"alpha", "beta gamma", "Zürich", "中文", "x1", "end.", "a-b", "Q"}
var c20Hard = []string{"2 * 3", "snake_case_name", "# not a heading", "a | b", "back`tick", "[link](x)", " lead", "trail ", "<tag>", "1. one", "- dash", "> quote", "star*", "\\slash", "tab end\t", "\ttab start", "nbsp end\u00a0",
	// words that are block markers when a wrapped line happens to begin with them
	"-", "+", "1.", "7)", "=", "---", "===", ">", "#", "*", "~~~", "```"}

// c20Atoms: texts are also composed of these, so that every metacharacter turns up at the start, in the middle and at
// the end of a run, alone and doubled (a fixed vocabulary only has them where its author thought of putting them)
var c20Atoms = []string{"`", "``", "*", "**", "_", "__", "~", "~~", "|", "\\", "[", "]", "(", ")", "<", ">", "#", "-", "+", "1.", "!", "&", "a", "b c", "Z", "é", "中", "0", "."}

func composedText(r *rng) string {
	for {
		t := ""
		for k := r.rangeI(1, 4); k > 0; k-- {
			t += c20Atoms[r.intn(len(c20Atoms))]
		}
		// blanks at the ends of a block are not expressible in Markdown: the composed texts have none
		if strings.TrimSpace(t) == t && t != "" {
			return t
		}
	}
}

// c20WrapStress: the current case is of the wrap-stress kind - long paragraphs of short words, many of them words that
// are block markers at the start of a line, exported with wrapping at a small width
var c20WrapStress bool
var c20Markers = []string{"-", "+", "1.", "7)", "=", "---", "===", ">", "#", "*", "12.", "- x", "+ y"}

func genWRuns(r *rng, hard bool, feats map[string]int, plainOnly bool) []wRun {
	var out []wRun
	nmax := 4
	if c20WrapStress {
		nmax = 14
	}
	for i, n := 0, r.rangeI(1, nmax); i < n; i++ {
		t := c20Words[r.intn(len(c20Words))]
		if c20WrapStress && r.chance(30) {
			t = c20Markers[r.intn(len(c20Markers))]
			feats["word that is a block marker at a line start"]++
		} else if hard && r.chance(35) {
			t = c20Hard[r.intn(len(c20Hard))]
			feats["text with Markdown metacharacters"]++
		} else if hard && r.chance(25) {
			t = composedText(r)
			feats["text composed of metacharacters and letters"]++
		}
		run := wRun{text: t}
		if !plainOnly {
			switch r.intn(8) {
			case 0:
				run.bold = true
			case 1:
				run.italic = true
			case 2:
				run.bold, run.italic = true, true
			case 3:
				run.strike = true
			case 4:
				run.code = true
			}
		}
		if i > 0 {
			out = append(out, wRun{text: " "})
		}
		out = append(out, run)
	}
	return out
}

func genWDoc(r *rng, hard bool, feats map[string]int) []wBlock {
	var out []wBlock
	for i, n := 0, r.rangeI(1, 7); i < n; i++ {
		switch r.pick([]int{15, 30, 8, 10, 12, 15, 5}) {
		case 0:
			out = append(out, wBlock{kind: "heading", level: r.rangeI(1, 6), runs: genWRuns(r, hard, feats, true)})
			feats["heading"]++
		case 1:
			out = append(out, wBlock{kind: "para", runs: genWRuns(r, hard, feats, false)})
			feats["paragraph"]++
		case 2:
			out = append(out, wBlock{kind: "quote", runs: genWRuns(r, hard, feats, true)})
			feats["quote"]++
		case 3:
			for k, m := 0, r.rangeI(1, 3); k < m; k++ {
				out = append(out, wBlock{kind: "code", runs: []wRun{{text: []string{"x := 1", "  indented", "if a < b {", "}"}[r.intn(4)]}}})
			}
			feats["code lines"]++
		case 4:
			for k, m := 0, r.rangeI(1, 3); k < m; k++ {
				out = append(out, wBlock{kind: "item", runs: genWRuns(r, hard, feats, false)})
			}
			feats["list items"]++
		case 5:
			nr, nc := r.rangeI(1, 3), r.rangeI(1, 3)
			b := wBlock{kind: "table"}
			for i := 0; i < nr; i++ {
				var row []string
				for j := 0; j < nc; j++ {
					t := c20Words[r.intn(len(c20Words))]
					if hard && r.chance(25) {
						t = c20Hard[r.intn(len(c20Hard))]
					}
					row = append(row, t)
				}
				b.rows = append(b.rows, row)
			}
			out = append(out, b)
			feats["table"]++
		case 6:
			out = append(out, wBlock{kind: "empty"})
			feats["empty paragraph"]++
		}
	}
	return out
}

func buildWDoc(bs []wBlock) *document.Document {
	d := document.New()
	addRuns := func(p *document.Paragraph, runs []wRun) {
		for _, r := range runs {
			f := &document.TextFormat{Bold: r.bold, Italic: r.italic, Strike: r.strike}
			if r.code {
				f.FontFamily = "Consolas"
			}
			p.AddFormattedText(r.text, f)
		}
	}
	for _, b := range bs {
		switch b.kind {
		case "heading":
			t := ""
			for _, r := range b.runs {
				t += r.text
			}
			d.AddHeadingParagraph(t, b.level)
		case "para":
			p := d.AddParagraph("")
			addRuns(p, b.runs)
		case "quote":
			t := ""
			for _, r := range b.runs {
				t += r.text
			}
			p := d.AddParagraph(t)
			p.SetStyle("Quote")
		case "code":
			p := d.AddParagraph(b.runs[0].text)
			p.SetStyle("CodeBlock")
		case "item":
			p := d.AddListItem("", &document.ListConfig{Type: document.ListTypeBullet, BulletSymbol: document.BulletTypeDot})
			addRuns(p, b.runs)
		case "table":
			t, err := d.AddTable(&document.TableConfig{Rows: len(b.rows), Cols: len(b.rows[0]), Width: 6000})
			if err == nil {
				for i, row := range b.rows {
					for j, c := range row {
						t.SetCellText(i, j, c)
					}
				}
			}
		case "empty":
			d.AddParagraph("")
		}
	}
	return d
}

// view: what a reader of the document sees, block by block
type vBlock struct {
	kind string
	runs []xRun
	rows [][]string
}

func viewDoc(d *document.Document) []vBlock {
	var out []vBlock
	for _, e := range d.Body.Elements {
		switch x := e.(type) {
		case *document.Paragraph:
			style := ""
			isList := false
			if x.Properties != nil {
				if x.Properties.ParagraphStyle != nil {
					style = x.Properties.ParagraphStyle.Val
				}
				isList = x.Properties.NumberingProperties != nil
			}
			v := vBlock{kind: "para"}
			switch {
			case strings.HasPrefix(style, "Heading"):
				v.kind = "heading" + style[len("Heading"):]
			case style == "Quote":
				v.kind = "quote"
			case style == "CodeBlock":
				v.kind = "code"
			case isList:
				v.kind = "item"
			}
			for i := range x.Runs {
				rp := x.Runs[i].Properties
				xr := xRun{text: x.Runs[i].Text.Content}
				if rp != nil && !strings.HasPrefix(v.kind, "heading") {
					xr.bold = rp.Bold != nil
					xr.italic = rp.Italic != nil
					xr.strike = rp.Strike != nil
					xr.code = rp.FontFamily != nil && rp.FontFamily.ASCII == "Consolas"
				}
				if xr.text != "" {
					v.runs = append(v.runs, xr)
				}
			}
			v.runs = normRuns(v.runs)
			if len(v.runs) == 0 && v.kind == "para" {
				continue // empty paragraphs carry nothing
			}
			out = append(out, v)
		case *document.Table:
			v := vBlock{kind: "table"}
			for ri := range x.Rows {
				var row []string
				for ci := range x.Rows[ri].Cells {
					t, _ := x.GetCellText(ri, ci)
					row = append(row, t)
				}
				v.rows = append(v.rows, row)
			}
			out = append(out, v)
		}
	}
	return out
}

// viewString: per block its kind, its text (blanks at the ends dropped: Markdown cannot express them) and the
// formatting of every character that is not a blank
func viewString(v []vBlock) string {
	var b strings.Builder
	for _, x := range v {
		fmt.Fprintf(&b, "[%s", x.kind)
		var text, flags strings.Builder
		for _, r := range x.runs {
			text.WriteString(r.text)
			fl := byte('a')
			if r.bold {
				fl += 1
			}
			if r.italic {
				fl += 2
			}
			if r.strike {
				fl += 4
			}
			if r.code {
				fl += 8
			}
			for _, ch := range r.text {
				if !unicode.IsSpace(ch) {
					flags.WriteByte(fl)
				}
			}
		}
		t := text.String()
		if x.kind != "code" {
			// runs of blanks are one blank to Markdown
			t = strings.Join(strings.Fields(t), " ")
		}
		fmt.Fprintf(&b, " %q %s", t, flags.String())
		for _, row := range x.rows {
			var cells []string
			for _, c := range row {
				cells = append(cells, strings.TrimSpace(c))
			}
			fmt.Fprintf(&b, " %q", cells)
		}
		b.WriteString("]")
	}
	return b.String()
}

func c20Options(r *rng) *markdown.ExportOptions {
	o := markdown.DefaultExportOptions()
	o.UseGFMTables = r.chance(75)
	o.UseSetext = r.chance(30)
	o.BulletListMarker = []string{"-", "*", "+"}[r.intn(3)]
	o.EmphasisMarker = []string{"*", "_"}[r.intn(2)]
	o.WrapLongLines = r.chance(25)
	o.MaxLineLength = r.rangeI(10, 60)
	if c20WrapStress {
		o.WrapLongLines = true
		o.MaxLineLength = r.rangeI(8, 30)
	}
	return o
}

func runC20(cfg *runCfg) error {
	res := newResult("C20", cfg.seed)
	r := newRng(cfg.seed + 2020)
	feats := map[string]int{}
	dist := newDistinct()
	failCount := map[string]int{}
	var cases []string
	fail := func(ci int, clause, class, detail string, c interface{}) {
		failCount[class]++
		if failCount[class] <= 4 {
			res.OracleFailures = append(res.OracleFailures, OracleFailure{Clause: clause, Class: class, Detail: detail, CaseID: ci, Case: c})
		}
	}
	mdOpts := markdown.DefaultOptions()
	mdOpts.EnableGFM, mdOpts.EnableTables, mdOpts.EnableTaskList = true, true, true
	for ci := 0; ci < cfg.n; ci++ {
		cr := r.fork()
		hard := ci%3 == 2
		c20WrapStress = ci%8 == 5
		if c20WrapStress {
			feats["wrap-stress document"]++
		}
		blocks := genWDoc(cr, hard, feats)
		d := buildWDoc(blocks)
		opts := c20Options(cr)
		res.Evaluations++
		md, err := markdown.NewExporter(opts).ExportToString(d, nil)
		if err == nil && cr.chance(8) {
			// the file route gives the same Markdown
			feats["exported through ExportToFile as well"]++
			docxPath, mdPath := filepath.Join(cfg.out, "c20in.docx"), filepath.Join(cfg.out, "c20out.md")
			if e := buildWDoc(blocks).Save(docxPath); e == nil {
				if e2 := markdown.NewExporter(opts).ExportToFile(docxPath, mdPath, nil); e2 != nil {
					fail(ci, "exports", "export_error", "ExportToFile: "+e2.Error(), nil)
				} else if b, _ := os.ReadFile(mdPath); string(b) != md {
					fail(ci, "file_route", "file_route", fmt.Sprintf("document %s: ExportToFile writes %q, ExportToString gives %q", viewString(viewDoc(d)), b, md), nil)
				}
			}
		}
		if err != nil {
			fail(ci, "exports", "export_error", err.Error(), nil)
			continue
		}
		dist.add(md)
		// the model treats white space as ASCII: documents with a no-break space are left to the oracle
		if bc := wblocksCoq(d); !strings.Contains(bc, "\u00a0") {
			cases = append(cases, fmt.Sprintf("mkCase (mkWOpts %s %s %s %s %s %d)\n  %s\n  %s", cBool(opts.UseGFMTables), cBool(opts.UseSetext), cStrRaw(opts.BulletListMarker), cStrRaw(opts.EmphasisMarker), cBool(opts.WrapLongLines), opts.MaxLineLength, bc, cStrRaw(md)))
		}
		v1 := trimView(viewDoc(d))
		d2, err := markdown.NewConverter(mdOpts).ConvertString(md, nil)
		if err != nil {
			fail(ci, "reimports", "convert_error", err.Error(), nil)
			continue
		}
		v2 := trimView(viewDoc(d2))
		pre := ""
		if hard {
			pre = "hard:"
		}
		// known findings, kept apart so that everything else is still compared:
		// (a) the converter renders a list item as an ordinary paragraph that starts with a bullet character
		hasItems := false
		for _, b := range v1 {
			if b.kind == "item" {
				hasItems = true
			}
		}
		if hasItems {
			bulletParas := 0
			for i := range v2 {
				if v2[i].kind == "para" && len(v2[i].runs) > 0 && strings.HasPrefix(v2[i].runs[0].text, "• ") {
					bulletParas++
					v2[i].kind = "item"
					v2[i].runs[0].text = strings.TrimPrefix(v2[i].runs[0].text, "• ")
					v2[i].runs = normRuns(v2[i].runs)
				}
			}
			if bulletParas > 0 {
				fail(ci, "round_trip_blocks", "q_list_items_reimported_as_paragraphs", fmt.Sprintf("%d list items of %s come back from %q as paragraphs that begin with a bullet character", bulletParas, viewString(v1), md), nil)
			}
		}
		// (b) without GFM tables a table is written as lines of text and comes back as a paragraph
		if !opts.UseGFMTables {
			hasTable := false
			for _, b := range v1 {
				if b.kind == "table" {
					hasTable = true
				}
			}
			if hasTable {
				fail(ci, "round_trip_blocks", "q_simple_tables_reimported_as_paragraphs", fmt.Sprintf("with UseGFMTables off the tables of %s are exported as %q and come back as paragraphs", viewString(v1), md), nil)
				// everything else is still compared: every other block comes back as itself, in order, and the blocks a
				// table comes back as hold the text of its cells, in order
				// alignment with backtracking: a run of tables may come back as any number of blocks (also none, when all
				// cells are empty), and the blocks it comes back as may look like the block that follows
				why := ""
				cellsIn := func(cells []string, blocks []vBlock) bool {
					var got strings.Builder
					for _, b := range blocks {
						for _, rn := range b.runs {
							got.WriteString(rn.text)
						}
						got.WriteString(" ")
					}
					flat := strings.Join(strings.Fields(got.String()), " ")
					at := 0
					for _, cell := range cells {
						c := strings.Join(strings.Fields(cell), " ")
						if c == "" {
							continue
						}
						p := strings.Index(flat[at:], c)
						if p < 0 {
							return false
						}
						at += p + len(c)
					}
					return true
				}
				var align func(i, k int) bool
				align = func(i, k int) bool {
					if i == len(v1) {
						return k == len(v2)
					}
					if v1[i].kind != "table" {
						return k < len(v2) && viewString(v1[i:i+1]) == viewString(v2[k:k+1]) && align(i+1, k+1)
					}
					var cells []string
					e := i
					for e < len(v1) && v1[e].kind == "table" {
						for _, row := range v1[e].rows {
							cells = append(cells, row...)
						}
						e++
					}
					for m := 0; k+m <= len(v2); m++ {
						if cellsIn(cells, v2[k:k+m]) && align(e, k+m) {
							return true
						}
					}
					return false
				}
				if !align(0, 0) {
					why = "the blocks beside the tables do not come back as themselves in order, or the text of a cell of the tables is not (in order) in what the tables come back as"
				}
				if why != "" {
					class := pre + "round_trip"
					class = "simple_table_text_lost"
					fail(ci, "round_trip_blocks", class, fmt.Sprintf("options %+v: document %s exports to %q, which converts back to %s: %s (beyond tables coming back as paragraphs)", *opts, viewString(v1), md, viewString(v2), why), map[string]interface{}{"markdown": md})
				}
				continue
			}
		}
		if viewString(v1) != viewString(v2) {
			fail(ci, "round_trip_blocks", pre+"round_trip", fmt.Sprintf("options %+v: document %s exports to %q, which converts back to %s", *opts, viewString(v1), md, viewString(v2)), map[string]interface{}{"markdown": md})
			continue
		}
		md2, err := markdown.NewExporter(opts).ExportToString(d2, nil)
		if err == nil && md2 != md && !hasItems {
			fail(ci, "export_stable", pre+"second_export", fmt.Sprintf("first export %q, export of the re-imported document %q", md, md2), nil)
		}
	}
	res.DistinctNontrivial = dist.n()
	res.Histogram = feats
	res.Shards = writeShardsPlain(cfg.out, "c20cases", "From Coq Require Import String List Bool.\nFrom WZ Require Import Model.MdWrite Corr.MdWriteCorr.\nImport ListNotations.\nOpen Scope string_scope.\n", "case", "mismatches", cases, 80)
	res.write(cfg.out)
	return nil
}

// trimView: Markdown cannot express blanks at the beginning or the end of a block
func trimView(v []vBlock) []vBlock {
	for i := range v {
		if v[i].kind == "code" || len(v[i].runs) == 0 {
			continue
		}
		v[i].runs[0].text = strings.TrimLeft(v[i].runs[0].text, " ")
		n := len(v[i].runs) - 1
		v[i].runs[n].text = strings.TrimRight(v[i].runs[n].text, " ")
		v[i].runs = normRuns(v[i].runs)
	}
	return v
}

func wrunsCoq(runs []document.Run) string {
	var xs []string
	for i := range runs {
		rp := runs[i].Properties
		b, it, st, cd := false, false, false, false
		if rp != nil {
			b, it, st = rp.Bold != nil, rp.Italic != nil, rp.Strike != nil
			if rp.FontFamily != nil {
				for _, f := range []string{"Consolas", "Courier New", "Monaco", "Menlo", "Source Code Pro"} {
					if strings.Contains(rp.FontFamily.ASCII, f) {
						cd = true
					}
				}
			}
		}
		xs = append(xs, fmt.Sprintf("mkWRun %s %s %s %s %s", cStrRaw(runs[i].Text.Content), cBool(b), cBool(it), cBool(st), cBool(cd)))
	}
	return "[" + strings.Join(xs, "; ") + "]"
}

var digitsRe = regexp.MustCompile(`\d+`)

func wblocksCoq(d *document.Document) string {
	var xs []string
	for _, e := range d.Body.Elements {
		switch x := e.(type) {
		case *document.Paragraph:
			style := "Normal"
			isList := false
			if x.Properties != nil {
				if x.Properties.ParagraphStyle != nil {
					style = x.Properties.ParagraphStyle.Val
				}
				isList = x.Properties.NumberingProperties != nil
			}
			rs := wrunsCoq(x.Runs)
			switch {
			case strings.HasPrefix(style, "Heading"):
				lv := 1
				if m := digitsRe.FindString(style); m != "" {
					fmt.Sscanf(m, "%d", &lv)
				}
				xs = append(xs, fmt.Sprintf("WHeading %d %s", lv, rs))
			case style == "Quote":
				xs = append(xs, "WQuote "+rs)
			case style == "CodeBlock":
				xs = append(xs, "WCode "+rs)
			case isList:
				xs = append(xs, "WItem "+rs)
			default:
				xs = append(xs, "WPara "+rs)
			}
		case *document.Table:
			var rows []string
			for ri := range x.Rows {
				var cells []string
				for ci := range x.Rows[ri].Cells {
					var ps []string
					for pi := range x.Rows[ri].Cells[ci].Paragraphs {
						ps = append(ps, wrunsCoq(x.Rows[ri].Cells[ci].Paragraphs[pi].Runs))
					}
					cells = append(cells, "["+strings.Join(ps, "; ")+"]")
				}
				rows = append(rows, "["+strings.Join(cells, "; ")+"]")
			}
			xs = append(xs, "WTable ["+strings.Join(rows, "; ")+"]")
		}
	}
	return "[" + strings.Join(xs, ";\n  ") + "]"
}
