package main

import (
	"archive/zip"
	"bytes"
	"fmt"
	"io"
	"sort"
	"strings"

	"github.com/zerx-lab/wordZero/pkg/document"
	"github.com/zerx-lab/wordZero/pkg/style"
)

func init() { props["C13"] = runC13 }

type refOp struct {
	Kind  string `json:"kind"`
	ID    string `json:"id,omitempty"`
	Level int    `json:"level,omitempty"`
	N     int    `json:"n,omitempty"`
}

type refWorld struct {
	doc                *document.Document
	atoms              map[string]int
	used               map[string]bool // ids the oracle knows the body uses
	foreignNumbering   bool
	listAddedToForeign bool
	tableTemplate      bool
	apiStyles          map[string]bool // custom styles created and not removed
}

func (w *refWorld) atom(id string) int {
	if a, ok := w.atoms[id]; ok {
		return a
	}
	w.atoms[id] = len(w.atoms) + 1
	return w.atoms[id]
}

func (w *refWorld) atomList(ids []string) string {
	var xs []string
	sort.Strings(ids)
	for _, id := range ids {
		xs = append(xs, fmt.Sprintf("%d", w.atom(id)))
	}
	return "[" + strings.Join(xs, "; ") + "]%N"
}

func managerIDs(d *document.Document) []string {
	var ids []string
	for _, s := range d.GetStyleManager().GetAllStyles() {
		ids = append(ids, s.StyleID)
	}
	sort.Strings(ids)
	return ids
}

type refObs struct {
	Defined, Used   []string
	NumUsed, NumDef []string
	AbstractMissing []string
	WF              string
}

func observeRefs(d *document.Document) (*refObs, error) {
	data, err := d.ToBytes()
	if err != nil {
		return nil, err
	}
	v, err := readPackage(data)
	if err != nil {
		return nil, err
	}
	o := &refObs{}
	if v.Doc == nil {
		return nil, fmt.Errorf("main part unreadable %v", v.XMLErr)
	}
	seen := map[string]bool{}
	v.Doc.walk(func(n *XNode) {
		switch n.Name {
		case "pStyle", "rStyle", "tblStyle":
			if id := n.Attrs["val"]; id != "" && !seen[id] {
				seen[id] = true
				o.Used = append(o.Used, id)
			}
		case "numId":
			if id := n.Attrs["val"]; id != "" && id != "0" && !seen["num:"+id] {
				seen["num:"+id] = true
				o.NumUsed = append(o.NumUsed, id)
			}
		}
	})
	if b, ok := v.Parts["word/styles.xml"]; ok {
		root, err := parseXML(b)
		if err != nil {
			o.WF = "styles.xml: " + err.Error()
		} else {
			for _, c := range root.Children {
				if c.Name == "style" {
					o.Defined = append(o.Defined, c.Attrs["styleId"])
				}
			}
		}
	}
	if b, ok := v.Parts["word/numbering.xml"]; ok {
		if root, err := parseXML(b); err == nil {
			abs := map[string]bool{}
			for _, c := range root.Children {
				if c.Name == "abstractNum" {
					abs[c.Attrs["abstractNumId"]] = true
				}
			}
			for _, c := range root.Children {
				if c.Name == "num" {
					o.NumDef = append(o.NumDef, c.Attrs["numId"])
					if a := c.child("abstractNumId"); a == nil || !abs[a.Attrs["val"]] {
						o.AbstractMissing = append(o.AbstractMissing, c.Attrs["numId"])
					}
				}
			}
		}
	}
	return o, nil
}

// foreignVariantIDs: ids the foreign styles part may define besides its own - they differ from ids the library or the
// histories use only in letter case, or by a quote style
var foreignVariantIDs = []string{"heading1", "HEADING2", "cust0", "CUST1", "code", "normal", "fstyle1"}

func foreignRefsDoc(withNumbering bool, variants ...string) []byte {
	var zb bytes.Buffer
	zw := zip.NewWriter(&zb)
	add := func(n, s string) { w, _ := zw.Create(n); w.Write([]byte(s)) }
	ct := `<?xml version="1.0"?><Types xmlns="http://schemas.openxmlformats.org/package/2006/content-types"><Default Extension="rels" ContentType="application/vnd.openxmlformats-package.relationships+xml"/><Default Extension="xml" ContentType="application/xml"/><Override PartName="/word/document.xml" ContentType="application/vnd.openxmlformats-officedocument.wordprocessingml.document.main+xml"/><Override PartName="/word/styles.xml" ContentType="application/vnd.openxmlformats-officedocument.wordprocessingml.styles+xml"/><Override PartName="/word/numbering.xml" ContentType="application/vnd.openxmlformats-officedocument.wordprocessingml.numbering+xml"/></Types>`
	add("[Content_Types].xml", ct)
	add("_rels/.rels", `<?xml version="1.0"?><Relationships xmlns="http://schemas.openxmlformats.org/package/2006/relationships"><Relationship Id="rId1" Type="`+relBase+`officeDocument" Target="word/document.xml"/></Relationships>`)
	numPara := ""
	rels := `<Relationship Id="rId1" Type="` + relBase + `styles" Target="styles.xml"/>`
	if withNumbering {
		numPara = `<w:p><w:pPr><w:pStyle w:val="FStyle2"/><w:numPr><w:ilvl w:val="0"/><w:numId w:val="9"/></w:numPr></w:pPr><w:r><w:t>foreign item</w:t></w:r></w:p>`
		rels += `<Relationship Id="rId2" Type="` + relBase + `numbering" Target="numbering.xml"/>`
		add("word/numbering.xml", `<?xml version="1.0"?><w:numbering xmlns:w="`+wNS+`"><w:abstractNum w:abstractNumId="5"><w:lvl w:ilvl="0"><w:start w:val="1"/><w:numFmt w:val="decimal"/><w:lvlText w:val="%1)"/></w:lvl></w:abstractNum><w:num w:numId="9"><w:abstractNumId w:val="5"/></w:num></w:numbering>`)
	}
	add("word/document.xml", `<?xml version="1.0"?><w:document xmlns:w="`+wNS+`"><w:body><w:p><w:pPr><w:pStyle w:val="FStyle1"/></w:pPr><w:r><w:t>foreign</w:t></w:r></w:p>`+numPara+`<w:sectPr/></w:body></w:document>`)
	add("word/styles.xml", `<?xml version="1.0" encoding="UTF-8" standalone="yes"?>`+"\n"+`<w:styles xmlns:w="`+wNS+`"><w:docDefaults><w:rPrDefault><w:rPr><w:sz w:val="21"/></w:rPr></w:rPrDefault></w:docDefaults><w:style w:type="paragraph" w:default="1" w:styleId="Normal"><w:name w:val="Normal"/></w:style><w:style w:type="paragraph" w:styleId="FStyle1"><w:name w:val="f1"/></w:style><w:style w:type="paragraph" w:styleId="FStyle2"><w:name w:val="f2"/></w:style>`+variantStyles(variants)+`</w:styles>`)
	add("word/_rels/document.xml.rels", `<?xml version="1.0"?><Relationships xmlns="http://schemas.openxmlformats.org/package/2006/relationships">`+rels+`</Relationships>`)
	zw.Close()
	return zb.Bytes()
}

// customPool: ids of custom styles; besides plain ones, ids that are a beginning or an extension of an id that the
// library or the foreign package defines, and ids with characters that need escaping in an attribute
func variantStyles(ids []string) string {
	s := ""
	for i, id := range ids {
		q := []string{`"`, `'`}[i%2]
		s += `<w:style w:type="paragraph" w:styleId=` + q + id + q + `><w:name w:val="v` + id + `"/></w:style>`
	}
	return s
}

var customPool = []string{"Cust0", "Cust1", "Cust2", "Cust3", "Cust", "Cust00", "Code", "Heading", "Heading10", "FStyle", "FStyle12", "Sub", "TOC", "Norma", "a\"b<c>&d", "é 中"}

func runRefsCase(r *rng) (coq string, ops []refOp, fails []OracleFailure, nOK int) {
	w := &refWorld{atoms: map[string]int{}, used: map[string]bool{}, apiStyles: map[string]bool{}}
	var steps []string
	init := ""
	if r.chance(35) {
		w.foreignNumbering = r.chance(60)
		var variants []string
		if r.chance(50) {
			for _, v := range foreignVariantIDs {
				if r.chance(50) {
					variants = append(variants, v)
				}
			}
		}
		d, err := document.OpenFromMemory(io.NopCloser(bytes.NewReader(foreignRefsDoc(w.foreignNumbering, variants...))))
		if err != nil {
			return "", nil, []OracleFailure{{Clause: "open_foreign", Detail: err.Error()}}, 0
		}
		w.doc = d
		used := []string{"FStyle1"}
		if w.foreignNumbering {
			used = append(used, "FStyle2")
		}
		for _, u := range used {
			w.used[u] = true
		}
		init = fmt.Sprintf("(mkR %s [] (Some %s) false %s)", w.atomList(managerIDs(d)), w.atomList(append([]string{"Normal", "FStyle1", "FStyle2"}, variants...)), w.atomList(used))
		ops = append(ops, refOp{Kind: "OpenForeign", N: map[bool]int{true: 1, false: 0}[w.foreignNumbering], ID: strings.Join(variants, ",")})
	} else {
		w.doc = document.New()
		init = fmt.Sprintf("(new_doc %s)", w.atomList(managerIDs(w.doc)))
	}
	addFail := func(clause, class, detail string) {
		fails = append(fails, OracleFailure{Clause: clause, Class: class, Detail: detail})
	}
	n := r.rangeI(3, 18)
	for i := 0; i <= n; i++ {
		kind := r.pick([]int{14, 6, 16, 12, 6, 6, 5, 3, 18, 8, 6, 5})
		if i == n {
			kind = 8
		}
		d := w.doc
		sm := d.GetStyleManager()
		switch kind {
		case 0: // create a custom style
			id := customPool[r.intn(len(customPool))]
			if r.chance(30) && !sm.StyleExists(id) {
				// the other way of creating a style: the quick style API
				if _, err := style.NewQuickStyleAPI(sm).CreateQuickStyle(style.QuickStyleConfig{ID: id, Name: id, Type: style.StyleTypeParagraph, BasedOn: "Normal",
					ParagraphConfig: &style.QuickParagraphConfig{Alignment: "center", SpaceBefore: 6}, RunConfig: &style.QuickRunConfig{Bold: true}}); err != nil {
					addFail("quick_style", "", fmt.Sprintf("CreateQuickStyle(%q): %v", id, err))
				}
			} else {
				st := sm.CreateCustomStyle(id, id, style.StyleTypeParagraph, "Normal")
				st.RunPr = &style.RunProperties{Bold: &style.Bold{}}
			}
			w.apiStyles[id] = true
			ops = append(ops, refOp{Kind: "AddCustom", ID: id})
			steps = append(steps, fmt.Sprintf("Do (AddCustom %d%%N)", w.atom(id)))
			nOK++
		case 1: // remove a style nothing uses
			cands := append([]string{}, customPool...)
			cands = append(cands, "Heading7", "Heading8", "Quote", "Title")
			id := cands[r.intn(len(cands))]
			if w.used[id] {
				continue
			}
			sm.RemoveStyle(id)
			delete(w.apiStyles, id)
			ops = append(ops, refOp{Kind: "RemoveStyle", ID: id})
			steps = append(steps, fmt.Sprintf("Do (RemoveStyle %d%%N)", w.atom(id)))
		case 2: // heading
			lvl := r.rangeI(1, 9)
			id := fmt.Sprintf("Heading%d", lvl)
			registered := sm.StyleExists(id)
			d.AddHeadingParagraph("h", lvl)
			if registered {
				w.used[id] = true
			}
			ops = append(ops, refOp{Kind: "Heading", Level: lvl})
			steps = append(steps, fmt.Sprintf("Do (UseStyle %d%%N)", w.atom(id)))
			nOK++
		case 3: // paragraph styled with a registered style
			ids := managerIDs(d)
			if len(ids) == 0 {
				continue
			}
			id := ids[r.intn(len(ids))]
			d.AddParagraph("styled").SetStyle(id)
			w.used[id] = true
			ops = append(ops, refOp{Kind: "UseStyle", ID: id})
			steps = append(steps, fmt.Sprintf("Do (UseStyle %d%%N)", w.atom(id)))
			nOK++
		case 4: // table of contents: entries use the styles 12+level
			d.GenerateTOC(&document.TOCConfig{Title: "c", MaxLevel: 9})
			for _, h := range d.ListHeadings() {
				id := fmt.Sprintf("%d", 12+h.Level)
				if sm.StyleExists(id) {
					w.used[id] = true
				}
				steps = append(steps, fmt.Sprintf("Do (UseStyle %d%%N)", w.atom(id)))
			}
			ops = append(ops, refOp{Kind: "GenerateTOC"})
		case 11: // RestartNumbering on its own - also as the first list call on a document, also of a list that does not exist
			id := []string{"1", "2", "9", "9", "x", ""}[r.intn(6)]
			d.RestartNumbering(id)
			ops = append(ops, refOp{Kind: "RestartNumbering", ID: id})
		case 5: // list item
			d.AddListItem("item", &document.ListConfig{Type: document.ListTypeNumber, StartNumber: 1 + r.intn(3)})
			if w.foreignNumbering {
				w.listAddedToForeign = true
			}
			ops = append(ops, refOp{Kind: "AddListItem"})
			nOK++
			// restarting the numbering of a list that exists, or of one that does not (the call then does nothing but
			// still takes a numbering id), before further items
			if r.chance(35) {
				id := []string{"1", "2", "3", "9", "x"}[r.intn(5)]
				d.RestartNumbering(id)
				ops = append(ops, refOp{Kind: "RestartNumbering", ID: id})
				if r.chance(60) {
					d.AddListItem("item after restart", &document.ListConfig{Type: []document.ListType{document.ListTypeNumber, document.ListTypeBullet}[r.intn(2)], BulletSymbol: document.BulletTypeDot, StartNumber: 1 + r.intn(3)})
					ops = append(ops, refOp{Kind: "AddListItem"})
				}
			}
		case 6:
			d.AddFootnote("b", "n")
			ops = append(ops, refOp{Kind: "AddFootnote"})
		case 7: // table with a style template
			t, err := d.AddTable(&document.TableConfig{Rows: 1, Cols: 1, Width: 3000})
			if err == nil {
				t.ApplyTableStyle(&document.TableStyleConfig{Template: document.TableStyleTemplateGrid})
				w.tableTemplate = true
			}
			ops = append(ops, refOp{Kind: "TableStyleTemplate"})
		case 8: // save and check
			o, err := observeRefs(d)
			if err != nil {
				addFail("saves", "", err.Error())
				continue
			}
			ops = append(ops, refOp{Kind: "Check"})
			// the table style templates are a known finding: keep them out of the model comparison
			var usedForModel []string
			for _, u := range o.Used {
				if !(w.tableTemplate && strings.HasPrefix(u, "Table")) {
					usedForModel = append(usedForModel, u)
				}
			}
			steps = append(steps, fmt.Sprintf("Check %s %s", w.atomList(o.Defined), w.atomList(usedForModel)))
			def := map[string]bool{}
			for _, id := range o.Defined {
				def[id] = true
			}
			for _, id := range o.Used {
				if !def[id] {
					class := ""
					if w.tableTemplate && strings.HasPrefix(id, "Table") {
						class = "q_table_style_template_undefined"
					}
					addFail("style_defined", class, fmt.Sprintf("check at op %d: the body uses style %q which word/styles.xml does not define", len(ops), id))
				}
			}
			for id := range w.apiStyles {
				if !def[id] {
					addFail("api_style_saved", "", fmt.Sprintf("check at op %d: style %q was created through the style API but is not in the saved styles part", len(ops), id))
				}
			}
			nd := map[string]bool{}
			for _, id := range o.NumDef {
				nd[id] = true
			}
			for _, id := range o.NumUsed {
				if !nd[id] {
					class := ""
					if w.listAddedToForeign {
						class = "q_numbering_replaced_on_opened"
					}
					addFail("numbering_defined", class, fmt.Sprintf("check at op %d: a list paragraph uses numId %s which word/numbering.xml does not define", len(ops), id))
				}
			}
			for _, id := range o.AbstractMissing {
				addFail("abstract_defined", "", fmt.Sprintf("check at op %d: num %s points at an abstract definition that does not exist", len(ops), id))
			}
			if o.WF != "" {
				addFail("styles_wf", "", o.WF)
			}
		case 9: // save + reopen
			data, err := d.ToBytes()
			if err != nil {
				addFail("saves", "", err.Error())
				continue
			}
			nd, err := document.OpenFromMemory(io.NopCloser(bytes.NewReader(data)))
			if err != nil {
				addFail("reopen", "", err.Error())
				continue
			}
			w.doc = nd
			if _, has := nd.GetParts()["word/numbering.xml"]; has {
				w.foreignNumbering = true // an opened document that carries its own numbering definitions
			}
			w.apiStyles = map[string]bool{} // the manager is re-initialised; saved definitions stay in the part
			ops = append(ops, refOp{Kind: "Reopen"})
			still := []string{}
			if o2, err := observeRefs(nd); err == nil {
				still = o2.Used
				// what the reader did not read back is no longer used (that loss is C03's business)
				for id := range w.used {
					found := false
					for _, u := range still {
						if u == id {
							found = true
						}
					}
					if !found {
						delete(w.used, id)
					}
				}
			}
			steps = append(steps, fmt.Sprintf("Do (Reopen %s %s)", w.atomList(managerIDs(nd)), w.atomList(still)))
		case 10: // render as a document template
			te := document.NewTemplateEngine()
			if _, err := te.LoadTemplateFromDocument("t", d); err != nil {
				continue
			}
			nd, err := te.RenderTemplateToDocument("t", document.NewTemplateData())
			if err != nil || nd == nil {
				continue
			}
			w.doc = nd
			if _, has := nd.GetParts()["word/numbering.xml"]; has {
				w.foreignNumbering = true // the rendered document carries numbering definitions its (new) manager does not know
			}
			ops = append(ops, refOp{Kind: "Render"})
			steps = append(steps, "Do Render")
		}
	}
	return fmt.Sprintf("(mkCase %s [%s])", init, strings.Join(steps, ";\n ")), ops, fails, nOK
}

func runC13(cfg *runCfg) error {
	res := newResult("C13", cfg.seed)
	r := newRng(cfg.seed + 1313)
	dist := newDistinct()
	res.Rule = "histories of 3-18 calls: custom style creation, removal of unused styles, headings of all levels, paragraphs styled with any registered style, TOC generation, list items, notes, table style templates, save+check, save+reopen, rendering as a document template; from New() or from a foreign package with its own styles (and numbering); every check reads styles.xml / numbering.xml / document.xml of the saved package independently; non-trivial = at least 3 content calls; distinct by hash of the op list"
	var coqCases []string
	perClass := map[string]int{}
	for ci := 0; ci < cfg.n; ci++ {
		cr := r.fork()
		coq, ops, fails, nOK := runRefsCase(cr)
		res.Evaluations++
		for _, o := range ops {
			res.Histogram[o.Kind]++
		}
		if nOK >= 3 {
			dist.add(ops)
		}
		seen := map[string]bool{}
		for _, f := range fails {
			if seen[f.Clause+f.Class] {
				continue
			}
			seen[f.Clause+f.Class] = true
			f.Case, f.CaseID = map[string]interface{}{"seed": cfg.seed, "case": ci, "ops": ops}, ci
			perClass[f.Clause+"/"+f.Class]++
			if perClass[f.Clause+"/"+f.Class] <= 6 {
				res.OracleFailures = append(res.OracleFailures, f)
			}
		}
		if coq != "" {
			coqCases = append(coqCases, coq)
		}
		res.Cases = append(res.Cases, ops)
		if len(res.Samples) < 2 && nOK >= 4 {
			res.Samples = append(res.Samples, ops)
		}
	}
	res.DistinctNontrivial = dist.n()
	res.Shards = writeShards(cfg.out, "c13cases", "From Coq Require Import NArith List.\nFrom WZ Require Import Model.Refs Corr.RefsCorr.", "case", "mismatches", coqCases, 80)
	res.write(cfg.out)
	return nil
}
