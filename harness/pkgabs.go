package main

// Abstraction of concrete package strings (relationship ids, types, part names) to the
// datatypes of coq/Model/Pkg.v, and its inverse used to build foreign packages.

import (
	"fmt"
	"regexp"
	"sort"
	"strconv"
	"strings"
)

var reCanonRid = regexp.MustCompile(`^rId(0|[1-9][0-9]{0,6})$`)
var reForeignRid = regexp.MustCompile(`^(?:R|rId0|id_|RID)([0-9]+)$`)

// foreignRidString: the string a foreign relationship id atom stands for (never canonical rId<n>).
func foreignRidString(a int) string {
	switch a % 4 {
	case 0:
		return fmt.Sprintf("R%d", a)
	case 1:
		return fmt.Sprintf("rId0%d", a)
	case 2:
		return fmt.Sprintf("id_%d", a)
	default:
		return fmt.Sprintf("RID%d", a)
	}
}

func absRid(s string) string {
	if m := reCanonRid.FindStringSubmatch(s); m != nil {
		return "(RId " + m[1] + ")"
	}
	if m := reForeignRid.FindStringSubmatch(s); m != nil {
		return "(RForeign " + m[1] + ")"
	}
	return "(RForeign 999999)"
}

var kindNames = map[string]string{"image": "KImage", "header": "KHeader", "footer": "KFooter", "numbering": "KNumbering",
	"footnotes": "KFootnotes", "endnotes": "KEndnotes", "settings": "KSettings", "styles": "KStyles"}

// relationship types the library has no special handling for; the last ones share a prefix or a substring with types
// it does handle (Word 2010 writes stylesWithEffects)
var otherKinds = []string{"hyperlink", "theme", "fontTable", "webSettings", "customXml", "stylesWithEffects", "imagePlaceholder", "footnotesSeparator", "headerSource", "numberingOverrides"}

func absKind(t string) string {
	k := relKind(t)
	if n, ok := kindNames[k]; ok {
		return n
	}
	for i, o := range otherKinds {
		if o == k {
			return fmt.Sprintf("(KOther %d)", i)
		}
	}
	return "(KOther 99)"
}

const relBase = "http://schemas.openxmlformats.org/officeDocument/2006/relationships/"

func absExt(e string) string {
	switch e {
	case "png":
		return "EPng"
	case "jpeg":
		return "EJpeg"
	case "gif":
		return "EGif"
	case "xml":
		return "EXml"
	case "rels":
		return "ERels"
	}
	for i, o := range otherExts {
		if o == e {
			return fmt.Sprintf("(EOther %d)", i)
		}
	}
	return "(EOther 99)"
}

var otherExts = []string{"jpg", "PNG", "bin", "odttf", "emf", "gz", ""}

var hfNames = map[string]string{"1": "HDefault", "first": "HFirst", "even": "HEven"}
var reMedia = regexp.MustCompile(`^word/media/image([+-]?[0-9]{1,15})\.(.*)$`)
var reHF = regexp.MustCompile(`^word/(header|footer)(1|first|even)\.xml$`)
var reHFOther = regexp.MustCompile(`^word/(header|footer)([2-9]|[1-9][0-9]{1,3})\.xml$`)
var reHFRels = regexp.MustCompile(`^word/_rels/(header|footer)(1|first|even|[2-4])\.xml\.rels$`)
var reForeignPart = regexp.MustCompile(`^word/x/f([0-9]+)\.(.*)$`)
var reOddMedia = regexp.MustCompile(`^word/media/odd([0-9]+)\.(.*)$`)

// foreignPartString: the part name a foreign part atom stands for.
func foreignPartString(a int, ext string) string { return fmt.Sprintf("word/x/f%d.%s", a, ext) }

// absPart maps a part name to a Model.Pkg.pname term.
func absPart(name string) string {
	switch name {
	case "word/document.xml":
		return "PDoc"
	case "word/styles.xml":
		return "PStyles"
	case "[Content_Types].xml":
		return "PCT"
	case "_rels/.rels":
		return "PRels"
	case "word/_rels/document.xml.rels":
		return "PDocRels"
	case "word/numbering.xml":
		return "PNumbering"
	case "word/footnotes.xml":
		return "PFootnotes"
	case "word/endnotes.xml":
		return "PEndnotes"
	case "word/settings.xml":
		return "PSettings"
	case "docProps/core.xml":
		return "PCore"
	case "docProps/app.xml":
		return "PApp"
	}
	if m := reMedia.FindStringSubmatch(name); m != nil {
		id, _ := strconv.ParseInt(m[1], 10, 64)
		e := m[2]
		if i := strings.LastIndex(e, "."); i >= 0 {
			e = e[i+1:]
		}
		return fmt.Sprintf("(PMedia %s %s)", cZ(id), absExt(e))
	}
	if m := reHF.FindStringSubmatch(name); m != nil {
		c := "PHeader"
		if m[1] == "footer" {
			c = "PFooter"
		}
		return "(" + c + " " + hfNames[m[2]] + ")"
	}
	if m := reHFOther.FindStringSubmatch(name); m != nil {
		// header<n>.xml, n >= 2: a name the library itself uses when its own name for a kind is taken
		n, _ := strconv.Atoi(m[2])
		if m[1] == "footer" {
			return fmt.Sprintf("(PFooterN %d)", n)
		}
		return fmt.Sprintf("(PHeaderN %d)", n)
	}
	if m := reHFRels.FindStringSubmatch(name); m != nil {
		idx := map[string]int{"1": 0, "first": 1, "even": 2, "2": 3, "3": 4, "4": 5}[m[2]]
		base := 400
		if m[1] == "footer" {
			base = 410
		}
		return fmt.Sprintf("(PForeign %d ERels)", base+idx)
	}
	if m := reForeignPart.FindStringSubmatch(name); m != nil {
		return fmt.Sprintf("(PForeign %s %s)", m[1], absExt(m[2]))
	}
	if m := reOddMedia.FindStringSubmatch(name); m != nil {
		n, _ := strconv.Atoi(m[1])
		return fmt.Sprintf("(PForeign %d %s)", 1000+n, absExt(m[2]))
	}
	return "(PForeign 999999 EXml)"
}

func absTarget(relsName string, r RelV) string {
	if r.Mode == "External" {
		return "(TExternal 0)"
	}
	return "(TPart " + absPart(resolveTarget(relsName, r.Target)) + ")"
}

var hfTypeNames = map[string]string{"default": "HDefault", "first": "HFirst", "even": "HEven"}

// viewCoq renders the projection of a saved package as a Corr.PkgCorr.view term.
// atomOf maps media bytes to the atom they were generated from (0 = unknown).
func viewCoq(v *PkgView, atomOf func([]byte) int) string {
	const dr = "word/_rels/document.xml.rels"
	var rels []string
	for _, r := range v.Rels[dr] {
		rels = append(rels, fmt.Sprintf("(%s, %s, %s)", absRid(r.ID), absKind(r.Type), absTarget(dr, r)))
	}
	var parts, media []string
	names := append([]string{}, v.Names...)
	sort.Strings(names)
	for _, n := range names {
		parts = append(parts, absPart(n))
		if strings.HasPrefix(n, "word/media/") {
			media = append(media, fmt.Sprintf("(%s, %d%%N)", absPart(n), atomOf(v.Parts[n])))
		}
	}
	var defs, ovs []string
	for _, e := range sortedStrKeys(v.Defaults) {
		defs = append(defs, absExt(e))
	}
	for _, p := range sortedStrKeys(v.Overrides) {
		ovs = append(ovs, absPart(strings.TrimPrefix(p, "/")))
	}
	var hrefs, frefs, pics []string
	if v.Doc != nil {
		v.Doc.walk(func(n *XNode) {
			switch n.Name {
			case "headerReference":
				hrefs = append(hrefs, fmt.Sprintf("(%s, %s)", hfTypeNames[n.Attrs["type"]], absRid(n.Attrs["id"])))
			case "footerReference":
				frefs = append(frefs, fmt.Sprintf("(%s, %s)", hfTypeNames[n.Attrs["type"]], absRid(n.Attrs["id"])))
			case "blip":
				if e, ok := n.Attrs["embed"]; ok {
					pics = append(pics, absRid(e))
				}
			}
		})
	}
	return fmt.Sprintf("(mkView %s %s %s %s %s %s %s %s)", cList(rels), cList(parts), cList(defs), cList(ovs), cList(hrefs), cList(frefs), cList(pics), cList(media))
}
