package main

// M-RAW stream (part of the C01 check): numbering, footnotes and endnotes parts the way other producers write them
// are put into a small package; the package is opened, a list item or a note is added, the package saved. The part as
// it was, tokenised here with encoding/xml (kind, local name, the text each token spans - by input offsets), and the
// part as it was written go to the model (Corr/RawPartCorr.v). The oracle: the written part is well-formed, and every
// element child of the original root is in it, byte for byte, in the original order.

import (
	"archive/zip"
	"bytes"
	"encoding/xml"
	"fmt"
	"io"
	"strings"

	"github.com/zerx-lab/wordZero/pkg/document"
)

type rawCase struct {
	numbering bool
	root      string // footnotes endnotes numbering
	note      string
	part      string
}

func genRawPart(r *rng, feats map[string]int) rawCase {
	c := rawCase{}
	switch r.intn(3) {
	case 0:
		c.numbering, c.root = true, "numbering"
	case 1:
		c.root, c.note = "footnotes", "footnote"
	default:
		c.root, c.note = "endnotes", "endnote"
	}
	// prefix of the WordprocessingML namespace in this part
	pfx := []string{"w", "w", "ns0", "", "W"}[r.intn(5)]
	q := func(n string) string {
		if pfx == "" {
			return n
		}
		return pfx + ":" + n
	}
	feats["raw part: prefix '"+pfx+"'"]++
	ws := func() string { return []string{" ", " ", "\n  ", "\t", " \r\n"}[r.intn(5)] }
	var b strings.Builder
	if r.chance(12) {
		// a byte order mark, as some producers write at the start of every part
		b.WriteString("\xef\xbb\xbf")
		feats["raw part: byte order mark"]++
	}
	switch r.intn(4) {
	case 0:
		b.WriteString(`<?xml version="1.0" encoding="UTF-8" standalone="yes"?>` + "\n")
	case 1:
		b.WriteString(`<?xml version="1.0"?><!-- made by something else -->`)
	case 2:
		b.WriteString("\n")
	}
	// the root's start tag
	b.WriteString("<" + q(c.root))
	decl := "xmlns"
	if pfx != "" {
		decl = "xmlns:" + pfx
	}
	eq := "="
	if r.chance(12) {
		eq = []string{" =", "= ", " = "}[r.intn(3)]
		feats["raw part: blanks around = in the root's attributes"]++
	}
	attrs := []string{decl + eq + `"` + wNS + `"`}
	if r.chance(30) {
		attrs = append(attrs, `xmlns:mc`+eq+`"http://schemas.openxmlformats.org/markup-compatibility/2006"`)
	}
	if r.chance(15) {
		attrs = append(attrs, `data`+eq+`"a>b xmlns:w= /"`)
		feats["raw part: '>' and 'xmlns:w=' inside an attribute value"]++
	}
	if pfx != "w" && r.chance(25) {
		attrs = append(attrs, `xmlns:w`+eq+`"`+wNS+`"`)
	}
	for i := len(attrs) - 1; i > 0; i-- {
		j := r.intn(i + 1)
		attrs[i], attrs[j] = attrs[j], attrs[i]
	}
	for _, a := range attrs {
		b.WriteString(ws() + a)
	}
	if r.chance(20) {
		b.WriteString(ws())
	}
	kind := r.pick([]int{78, 8, 7, 7})
	if kind == 1 {
		b.WriteString("/>")
		feats["raw part: root closes itself"]++
		c.part = b.String()
		return c
	}
	b.WriteString(">")
	between := func() {
		switch r.intn(6) {
		case 0:
			b.WriteString("\n  ")
		case 1:
			b.WriteString("<!-- between -->")
		case 2:
			b.WriteString("<?pi x?>")
		case 3:
			b.WriteString(" ")
		}
	}
	nKids := r.rangeI(1, 5)
	if kind == 2 {
		nKids = 0
		feats["raw part: root without children"]++
	}
	inner := func(depth int) string {
		var s strings.Builder
		for k := r.intn(3); k > 0; k-- {
			switch r.intn(5) {
			case 0:
				s.WriteString("<" + q("lvl") + " " + q("ilvl") + `="0"><` + q("start") + " " + q("val") + `="1"/><` + q("numFmt") + " " + q("val") + `="decimal"/></` + q("lvl") + ">")
			case 1:
				s.WriteString("<" + q("p") + "><" + q("r") + "><" + q("t") + ` xml:space="preserve"> a &lt; b &amp; c </` + q("t") + "></" + q("r") + "></" + q("p") + ">")
			case 2:
				s.WriteString("<![CDATA[x < y]]>")
			case 3:
				s.WriteString("<!-- in -->")
			case 4:
				s.WriteString("<x:other xmlns:x=\"urn:x\" a='1'/>")
			}
		}
		return s.String()
	}
	id := 1
	for i := 0; i < nKids; i++ {
		between()
		if c.numbering {
			switch r.pick([]int{40, 40, 20}) {
			case 0:
				fmt.Fprintf(&b, `<%s %s="%s">%s</%s>`, q("abstractNum"), q("abstractNumId"), []string{fmt.Sprint(3 + i), fmt.Sprint(r.intn(40)), "007", "+12", "x", "", "-4"}[r.pick([]int{50, 20, 6, 6, 6, 6, 6})], inner(0), q("abstractNum"))
			case 1:
				fmt.Fprintf(&b, `<%s %s="%s"><%s %s="3"/></%s>`, q("num"), q("numId"), []string{fmt.Sprint(7 + i), fmt.Sprint(r.intn(40)), "010", "y", "-2"}[r.pick([]int{55, 25, 7, 7, 6})], q("abstractNumId"), q("val"), q("num"))
			case 2:
				fmt.Fprintf(&b, `<%s %s="x"/>`, q("numIdMacAtCleanup"), q("val"))
			}
		} else {
			switch r.pick([]int{25, 60, 15}) {
			case 0:
				fmt.Fprintf(&b, `<%s %s="separator" %s="-1"><%s/></%s>`, q(c.note), q("type"), q("id"), q("p"), q(c.note))
			case 1:
				typ := []string{"", "", ` ` + q("type") + `="normal"`, ` ` + q("type") + `=""`, ` ` + q("type") + `="continuationSeparator"`}[r.intn(5)]
				fmt.Fprintf(&b, `<%s%s %s="%s">%s</%s>`, q(c.note), typ, q("id"), []string{fmt.Sprint(id), fmt.Sprint(r.intn(30)), "x", "09"}[r.pick([]int{60, 25, 8, 7})], inner(0), q(c.note))
				id += 1 + r.intn(3)
			case 2:
				fmt.Fprintf(&b, `<%s/>`, q("unknownChild"))
			}
		}
	}
	between()
	b.WriteString("</" + q(c.root) + ws()[:0] + ">")
	switch kind {
	case 3:
		// damaged: cut, or an end tag that does not match
		s := b.String()
		if r.chance(50) && len(s) > 20 {
			s = s[:len(s)-r.rangeI(1, 15)]
		} else {
			s = strings.Replace(s, "</"+q(c.root)+">", "</"+q("other")+">", 1)
		}
		feats["raw part: damaged"]++
		c.part = s
		return c
	}
	if r.chance(10) {
		b.WriteString("\n<!-- after -->\n")
	}
	c.part = b.String()
	return c
}

// rawTokens: the tokens of a part with the text each was read from; ok=false when the tokeniser reports an error
func rawTokens(raw []byte) (string, bool) {
	dec := xml.NewDecoder(bytes.NewReader(raw))
	var out []string
	for {
		before := dec.InputOffset()
		tok, err := dec.Token()
		if err == io.EOF {
			break
		}
		if err != nil {
			return "", false
		}
		text := string(raw[before:dec.InputOffset()])
		switch t := tok.(type) {
		case xml.StartElement:
			var as []string
			for _, a := range t.Attr {
				as = append(as, fmt.Sprintf("(%s, %s)", cStrRaw(a.Name.Local), cStrRaw(a.Value)))
				if a.Name.Space == "xmlns" {
					// a declaration xmlns:p: also under its full name
					as = append(as, fmt.Sprintf("(%s, %s)", cStrRaw("xmlns:"+a.Name.Local), cStrRaw(a.Value)))
				}
			}
			out = append(out, fmt.Sprintf("mkTok KStart %s [%s] %s", cStrRaw(t.Name.Local), strings.Join(as, "; "), cStrRaw(text)))
		case xml.EndElement:
			out = append(out, fmt.Sprintf("mkTok KEnd %s [] %s", cStrRaw(t.Name.Local), cStrRaw(text)))
		default:
			out = append(out, fmt.Sprintf("mkTok KOther \"\" [] %s", cStrRaw(text)))
		}
	}
	return "[" + strings.Join(out, "; ") + "]", true
}

// rawChildren: the element children of the root, each with the bytes it spans (independent of the library: a walk of
// its own over the same tokeniser)
func rawChildren(raw []byte) [][]byte {
	dec := xml.NewDecoder(bytes.NewReader(raw))
	depth := 0
	var begin int64
	var kids [][]byte
	for {
		before := dec.InputOffset()
		tok, err := dec.Token()
		if err != nil {
			return kids
		}
		switch tok.(type) {
		case xml.StartElement:
			depth++
			if depth == 2 {
				begin = before
			}
		case xml.EndElement:
			if depth == 2 {
				kids = append(kids, raw[begin:dec.InputOffset()])
			}
			depth--
		}
	}
}

func rawPackage(c rawCase) []byte {
	parts := map[string][]byte{}
	ov := `<Override PartName="/word/document.xml" ContentType="application/vnd.openxmlformats-officedocument.wordprocessingml.document.main+xml"/><Override PartName="/word/` + c.root + `.xml" ContentType="application/vnd.openxmlformats-officedocument.wordprocessingml.` + c.root + `+xml"/>`
	parts["[Content_Types].xml"] = []byte(`<?xml version="1.0"?><Types xmlns="http://schemas.openxmlformats.org/package/2006/content-types"><Default Extension="rels" ContentType="application/vnd.openxmlformats-package.relationships+xml"/><Default Extension="xml" ContentType="application/xml"/>` + ov + `</Types>`)
	parts["_rels/.rels"] = []byte(`<?xml version="1.0"?><Relationships xmlns="http://schemas.openxmlformats.org/package/2006/relationships"><Relationship Id="rId1" Type="` + relBase + `officeDocument" Target="word/document.xml"/></Relationships>`)
	parts["word/_rels/document.xml.rels"] = []byte(`<?xml version="1.0"?><Relationships xmlns="http://schemas.openxmlformats.org/package/2006/relationships"><Relationship Id="rId5" Type="` + relBase + c.root + `" Target="` + c.root + `.xml"/></Relationships>`)
	parts["word/document.xml"] = []byte(`<?xml version="1.0"?><w:document xmlns:w="` + wNS + `"><w:body><w:p><w:r><w:t>raw</w:t></w:r></w:p><w:sectPr/></w:body></w:document>`)
	parts["word/"+c.root+".xml"] = []byte(c.part)
	var zb bytes.Buffer
	zw := zip.NewWriter(&zb)
	for _, n := range []string{"[Content_Types].xml", "_rels/.rels", "word/document.xml", "word/_rels/document.xml.rels", "word/" + c.root + ".xml"} {
		w, _ := zw.Create(n)
		w.Write(parts[n])
	}
	zw.Close()
	return zb.Bytes()
}

func zipPart(data []byte, name string) []byte {
	zr, err := zip.NewReader(bytes.NewReader(data), int64(len(data)))
	if err != nil {
		return nil
	}
	for _, f := range zr.File {
		if f.Name == name {
			rc, err := f.Open()
			if err != nil {
				return nil
			}
			b, _ := io.ReadAll(rc)
			rc.Close()
			return b
		}
	}
	return nil
}

// rawPartStream runs n cases and returns the Coq cases
func rawPartStream(res *Result, r *rng, n int) []string {
	var cases []string
	perClause := map[string]int{}
	fail := func(i int, clause, detail string) {
		perClause[clause]++
		if perClause[clause] <= 3 {
			res.OracleFailures = append(res.OracleFailures, OracleFailure{Clause: clause, Class: "rawpart:" + clause, Detail: detail, CaseID: -100000 - i})
		}
	}
	for i := 0; i < n; i++ {
		cr := r.fork()
		c := genRawPart(cr, res.Histogram)
		res.Histogram["raw part: "+c.root]++
		d, err := document.OpenFromMemory(io.NopCloser(bytes.NewReader(rawPackage(c))))
		if err != nil || d == nil {
			fail(i, "opens", fmt.Sprintf("package with the %s part %q does not open: %v", c.root, c.part, err))
			continue
		}
		switch c.root {
		case "numbering":
			d.AddListItem("item", &document.ListConfig{Type: document.ListTypeNumber, StartNumber: 1 + cr.intn(3)})
		case "footnotes":
			d.AddFootnote("text", "note <&> text")
		default:
			d.AddEndnote("text", "note <&> text")
		}
		out, err := d.ToBytes()
		if err != nil {
			fail(i, "saves", fmt.Sprintf("%s part %q: ToBytes: %v", c.root, c.part, err))
			continue
		}
		written := zipPart(out, "word/"+c.root+".xml")
		if written == nil {
			fail(i, "part_written", fmt.Sprintf("%s part %q: no such part in the saved package", c.root, c.part))
			continue
		}
		// oracle: well-formed; the original children in order, byte for byte (when the original was well-formed and
		// has the expected root - otherwise the library regenerates the part, which is what it may do)
		if _, perr := parseXML(written); perr != nil {
			fail(i, "xml_wf", fmt.Sprintf("after adding to a document whose %s part is %q the part is not well-formed: %v; written: %q", c.root, c.part, perr, written))
		}
		toks, okToks := rawTokens([]byte(c.part))
		kids := rawChildren([]byte(c.part))
		adopted := false
		if okToks && len(kids) > 0 {
			adopted = bytes.Contains(written, kids[0])
			if adopted {
				pos := 0
				for _, k := range kids {
					j := bytes.Index(written[pos:], k)
					if j < 0 {
						fail(i, "children_kept", fmt.Sprintf("%s part %q: child %q is not in the written part (in order) %q", c.root, c.part, k, written))
						break
					}
					// numbering parts are regrouped (abstract definitions first): order is judged by the model
					if !c.numbering {
						pos += j + len(k)
					}
				}
			}
		}
		body := string(written)
		if strings.HasPrefix(body, "<?xml") {
			if k := strings.Index(body, "?>"); k >= 0 {
				body = strings.TrimPrefix(body[k+2:], "\n")
			}
		}
		tk := "None"
		if okToks {
			tk = "(Some " + toks + ")"
		}
		cases = append(cases, fmt.Sprintf("mkCase %s %s %s\n  %s\n  %s %s\n  %s", cBool(c.numbering), cStrRaw(c.root), cStrRaw(c.note), tk, cStrRaw(wNS), cBool(adopted), cStrRaw(body)))
	}
	return cases
}
