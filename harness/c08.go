package main

import (
	"fmt"
	"regexp"
	"strconv"
	"strings"

	"github.com/zerx-lab/wordZero/pkg/document"
)

func init() { props["C08"] = runC08 }

type bodyOp struct {
	Kind  string `json:"kind"`
	Ctor  string `json:"ctor,omitempty"` // which constructor / which section-creating call
	N     int    `json:"n,omitempty"`    // index, level, item count
	Atoms []int  `json:"atoms,omitempty"`
	Which string `json:"which,omitempty"` // handle class for RemoveHandle: live | removed | foreign | nil
	Pick  int    `json:"pick,omitempty"`
	File  bool   `json:"file,omitempty"`
}

type elemV struct {
	Kind string
	Atom int
}

var kindCoq = map[string]string{"p": "KPara", "tbl": "KTbl", "sect": "KSect", "bms": "KBmS", "bme": "KBmE", "sdt": "KSdt", "math": "KMath"}

func elemsCoq(es []elemV) string {
	var xs []string
	for _, e := range es {
		k, ok := kindCoq[e.Kind]
		if !ok {
			k = "KMath"
		}
		xs = append(xs, fmt.Sprintf("(%s, %d%%N)", k, e.Atom))
	}
	return cList(xs)
}

type bodyRun struct {
	doc     *document.Document
	atoms   map[interface{}]int
	next    int
	removed []*document.Paragraph
	other   *document.Document
}

func (b *bodyRun) view() []elemV {
	var out []elemV
	for _, el := range b.doc.Body.Elements {
		k := "math"
		switch el.(type) {
		case *document.Paragraph:
			k = "p"
		case *document.Table:
			k = "tbl"
		case *document.SectionProperties:
			k = "sect"
		case *document.BookmarkStart:
			k = "bms"
		case *document.BookmarkEnd:
			k = "bme"
		case *document.SDT:
			k = "sdt"
		case *document.MathParagraph:
			k = "math"
		}
		a, ok := b.atoms[el]
		if !ok {
			b.next++
			a = b.next
			b.atoms[el] = a
		}
		out = append(out, elemV{k, a})
	}
	return out
}

var reAtom = regexp.MustCompile(`E([0-9]+)\.`)

func atomInText(s string) int {
	if m := reAtom.FindStringSubmatch(s); m != nil {
		n, _ := strconv.Atoi(m[1])
		return n
	}
	return 0
}

func xmlBodyView(v *PkgView) []elemV {
	var out []elemV
	if v.Doc == nil {
		return nil
	}
	body := v.Doc.child("body")
	if body == nil {
		return nil
	}
	for _, c := range body.Children {
		switch c.Name {
		case "p":
			if len(c.find("oMath")) > 0 || len(c.find("oMathPara")) > 0 {
				out = append(out, elemV{"math", 0})
			} else {
				out = append(out, elemV{"p", atomInText(c.runText())})
			}
		case "tbl":
			out = append(out, elemV{"tbl", atomInText(c.runText())})
		case "sectPr":
			out = append(out, elemV{"sect", 0})
		case "bookmarkStart":
			out = append(out, elemV{"bms", 0})
		case "bookmarkEnd":
			out = append(out, elemV{"bme", 0})
		case "sdt":
			out = append(out, elemV{"sdt", 0})
		default:
			out = append(out, elemV{"math", 0})
		}
	}
	return out
}

var ctors = []string{"AddParagraph", "AddFormattedParagraph", "AddHeadingParagraph", "AddHeadingParagraphWithBookmark", "AddHeadingWithBookmark", "AddTable", "AddPageBreak", "AddImage", "AddListItem", "AddBulletList", "CreateMultiLevelList", "AddFootnote", "AddEndnote", "AddMathFormula", "GenerateTOC", "AddElementSect"}
var sectCalls = []string{"SetPageMargins", "SetPageOrientation", "SetPageSize", "AddHeader", "AddFooter", "SetDifferentFirstPage", "GetPageSettings", "SetDocGrid", "AddFooterWithPageNumber"}

func genBodyOp(r *rng) bodyOp {
	switch r.pick([]int{46, 14, 9, 9, 10, 12}) {
	case 0:
		return bodyOp{Kind: "Append", Ctor: ctors[r.intn(len(ctors))], N: r.rangeI(1, 3)}
	case 1:
		return bodyOp{Kind: "EnsureSect", Ctor: sectCalls[r.intn(len(sectCalls))]}
	case 2:
		return bodyOp{Kind: "RemoveAt", N: r.rangeI(-2, 14)}
	case 3:
		return bodyOp{Kind: "RemoveParaAt", N: r.rangeI(-2, 10)}
	case 4:
		return bodyOp{Kind: "RemoveHandle", Which: []string{"live", "live", "live", "removed", "foreign", "nil"}[r.intn(6)], Pick: r.intn(1000)}
	default:
		return bodyOp{Kind: "SaveB", File: r.chance(25)}
	}
}

// apply runs one op; returns ok, the model-level op (with atoms filled in) and the xml view for saves.
func (b *bodyRun) apply(op *bodyOp, tmp string) (ok bool, xmlv []elemV, isSave bool, err error) {
	defer func() {
		if p := recover(); p != nil {
			err = fmt.Errorf("panic: %v", p)
		}
	}()
	d := b.doc
	txt := func() string { return fmt.Sprintf("E%d.", b.next+1) }
	switch op.Kind {
	case "Append":
		before := len(d.Body.Elements)
		switch op.Ctor {
		case "AddParagraph":
			d.AddParagraph(txt())
		case "AddFormattedParagraph":
			d.AddFormattedParagraph(txt(), &document.TextFormat{Bold: true})
		case "AddHeadingParagraph":
			d.AddHeadingParagraph(txt(), op.N)
		case "AddHeadingParagraphWithBookmark":
			b.next++ // the bookmark start comes first and takes an atom; the paragraph text names the next one
			d.AddHeadingParagraphWithBookmark(fmt.Sprintf("E%d.", b.next+1), op.N, fmt.Sprintf("bm%d", b.next))
			b.next--
		case "AddHeadingWithBookmark":
			d.AddHeadingWithBookmark(txt(), op.N, "")
		case "AddTable":
			t, e := d.AddTable(&document.TableConfig{Rows: 1 + op.N%2, Cols: 2, Width: 4000})
			if e == nil {
				t.SetCellText(0, 0, txt())
			}
		case "AddPageBreak":
			d.AddPageBreak()
		case "AddImage":
			w, h := imgDims(3)
			// without a configuration, or with one of the positions and wrapping modes (whatever they are, the picture is
			// one more element at the end)
			var cfg *document.ImageConfig
			if op.N%3 != 0 {
				cfg = &document.ImageConfig{
					Position: []document.ImagePosition{document.ImagePositionInline, document.ImagePositionFloatLeft, document.ImagePositionFloatRight}[op.N%3],
					WrapText: []document.ImageWrapText{document.ImageWrapNone, document.ImageWrapSquare, document.ImageWrapTight, document.ImageWrapTopAndBottom}[(op.N/3)%4],
				}
			}
			d.AddImageFromData(imageBytes("png", 3), "x.png", document.ImageFormatPNG, w, h, cfg)
		case "AddListItem":
			d.AddListItem(txt(), &document.ListConfig{Type: document.ListTypeNumber, StartNumber: 1})
		case "AddBulletList":
			d.AddBulletList(txt(), 0, document.BulletTypeDot)
		case "CreateMultiLevelList":
			var items []document.ListItem
			for i := 0; i < op.N; i++ {
				items = append(items, document.ListItem{Text: fmt.Sprintf("E%d.", b.next+1+i), Level: i, Type: document.ListTypeBullet, BulletSymbol: document.BulletTypeDot})
			}
			d.CreateMultiLevelList(items)
		case "AddFootnote":
			d.AddFootnote(txt(), "note")
		case "AddEndnote":
			d.AddEndnote(txt(), "note")
		case "AddMathFormula":
			d.AddMathFormula("<m:r><m:t>x</m:t></m:r>", op.N%2 == 0)
		case "GenerateTOC":
			d.GenerateTOC(nil)
		case "AddElementSect":
			// a second (third ...) section-settings element, as the body of an opened multi-section document holds
			d.Body.AddElement(&document.SectionProperties{})
		}
		v := b.view()
		op.Atoms = nil
		for _, e := range v[min(before, len(v)):] {
			op.Atoms = append(op.Atoms, e.Atom)
		}
		_ = v
		return true, nil, false, nil
	case "EnsureSect":
		switch op.Ctor {
		case "SetPageMargins":
			d.SetPageMargins(10, 10, 10, 10)
		case "SetPageOrientation":
			d.SetPageOrientation(document.OrientationLandscape)
		case "SetPageSize":
			d.SetPageSize(document.PageSizeA5)
		case "AddHeader":
			d.AddHeader(document.HeaderFooterTypeDefault, "h")
		case "AddFooter":
			d.AddFooter(document.HeaderFooterTypeEven, "f")
		case "SetDifferentFirstPage":
			d.SetDifferentFirstPage(true)
		case "GetPageSettings":
			d.GetPageSettings()
		case "SetDocGrid":
			d.SetDocGrid(document.DocGridLines, 300, 0)
		case "AddFooterWithPageNumber":
			d.AddFooterWithPageNumber(document.HeaderFooterTypeDefault, "p", true)
		}
		v := b.view()
		op.Atoms = []int{b.next + 1}
		for _, e := range v {
			if e.Kind == "sect" {
				op.Atoms = []int{e.Atom}
			}
		}
		return true, nil, false, nil
	case "RemoveAt":
		var gone *document.Paragraph
		if op.N >= 0 && op.N < len(d.Body.Elements) {
			gone, _ = d.Body.Elements[op.N].(*document.Paragraph)
		}
		ok = d.RemoveElementAt(op.N)
		if ok && gone != nil {
			b.removed = append(b.removed, gone)
		}
		return ok, nil, false, nil
	case "RemoveParaAt":
		ps := d.Body.GetParagraphs()
		var gone *document.Paragraph
		if op.N >= 0 && op.N < len(ps) {
			gone = ps[op.N]
		}
		ok = d.RemoveParagraphAt(op.N)
		if ok && gone != nil {
			b.removed = append(b.removed, gone)
		}
		return ok, nil, false, nil
	case "RemoveHandle":
		var h *document.Paragraph
		op.Atoms = []int{999999}
		switch op.Which {
		case "live":
			ps := d.Body.GetParagraphs()
			if len(ps) > 0 {
				h = ps[op.Pick%len(ps)]
				op.Atoms = []int{b.atoms[h]}
			}
		case "removed":
			if len(b.removed) > 0 {
				h = b.removed[op.Pick%len(b.removed)]
				op.Atoms = []int{b.atoms[h]}
			}
		case "foreign":
			h = b.other.AddParagraph("foreign")
		}
		ok = d.RemoveParagraph(h)
		if ok && h != nil {
			b.removed = append(b.removed, h)
		}
		return ok, nil, false, nil
	case "SaveB":
		data, e := saveBytes(d, op.File, tmp)
		if e != nil {
			return false, nil, true, fmt.Errorf("save: %v", e)
		}
		v, e := readPackage(data)
		if e != nil {
			return false, nil, true, fmt.Errorf("saved package unreadable: %v", e)
		}
		if msg, bad := v.XMLErr["word/document.xml"]; bad {
			return false, nil, true, fmt.Errorf("saved main part ill-formed: %s", msg)
		}
		return true, xmlBodyView(v), true, nil
	}
	return false, nil, false, fmt.Errorf("unknown op")
}

func (op bodyOp) coq() string {
	switch op.Kind {
	case "Append", "EnsureSect":
		return ""
	case "RemoveAt":
		return fmt.Sprintf("(RemoveAt %s)", cZ(int64(op.N)))
	case "RemoveParaAt":
		return fmt.Sprintf("(RemoveParaAt %s)", cZ(int64(op.N)))
	case "RemoveHandle":
		return fmt.Sprintf("(RemoveHandle %d%%N)", op.Atoms[0])
	}
	return "SaveB"
}

// runBodyCase: implementation run + oracle (an independent list in Go, the property's sentence).
func runBodyCase(ops []bodyOp, tmp string) (coq string, fail *OracleFailure, nOK int) {
	b := &bodyRun{doc: document.New(), atoms: map[interface{}]int{}, other: document.New()}
	var expect []elemV // the oracle's own list
	var steps []string
	for i := range ops {
		op := &ops[i]
		before := b.view()
		ok, xmlv, isSave, err := b.apply(op, tmp)
		after := b.view()
		if err != nil {
			if fail == nil {
				fail = &OracleFailure{Clause: "no_panic", Detail: fmt.Sprintf("op %d %s/%s: %v", i, op.Kind, op.Ctor, err)}
			}
			break
		}
		if ok {
			nOK++
		}
		// ---- oracle
		var want []elemV
		wantOK := true
		switch op.Kind {
		case "Append":
			want = append(append([]elemV{}, expect...), after[min(len(before), len(after)):]...)
			if len(after) <= len(before) {
				want = nil
			}
		case "EnsureSect":
			want = append([]elemV{}, expect...)
			has := false
			for _, e := range expect {
				if e.Kind == "sect" {
					has = true
				}
			}
			if !has && len(after) > 0 {
				want = append(want, after[len(after)-1])
			}
		case "RemoveAt":
			if op.N >= 0 && op.N < len(expect) {
				want = append(append([]elemV{}, expect[:op.N]...), expect[op.N+1:]...)
			} else {
				want, wantOK = expect, false
			}
		case "RemoveParaAt":
			want, wantOK = expect, false
			cnt := 0
			for j, e := range expect {
				if e.Kind == "p" {
					if cnt == op.N {
						want, wantOK = append(append([]elemV{}, expect[:j]...), expect[j+1:]...), true
						break
					}
					cnt++
				}
			}
		case "RemoveHandle":
			want, wantOK = expect, false
			for j, e := range expect {
				if e.Kind == "p" && e.Atom == op.Atoms[0] {
					want, wantOK = append(append([]elemV{}, expect[:j]...), expect[j+1:]...), true
					break
				}
			}
		case "SaveB":
			want = expect
		}
		if fail == nil {
			if fmt.Sprint(want) != fmt.Sprint(after) {
				fail = &OracleFailure{Clause: "list_semantics", Detail: fmt.Sprintf("op %d %s/%s(%d): body is %v, an ordered list gives %v", i, op.Kind, op.Ctor, op.N, after, want)}
			} else if (op.Kind == "RemoveAt" || op.Kind == "RemoveParaAt" || op.Kind == "RemoveHandle") && ok != wantOK {
				fail = &OracleFailure{Clause: "remove_result", Detail: fmt.Sprintf("op %d %s(%d): returned %v, expected %v", i, op.Kind, op.N, ok, wantOK)}
			}
			if isSave && fail == nil {
				var ser []elemV
				var sect *elemV
				for k := range expect {
					if expect[k].Kind == "sect" {
						sect = &expect[k]
					} else {
						ser = append(ser, expect[k])
					}
				}
				if sect != nil {
					ser = append(ser, *sect)
				}
				okx := len(ser) == len(xmlv)
				for k := 0; okx && k < len(ser); k++ {
					if ser[k].Kind != xmlv[k].Kind || (xmlv[k].Atom != 0 && xmlv[k].Atom != ser[k].Atom) {
						okx = false
					}
				}
				if !okx {
					fail = &OracleFailure{Clause: "saved_order", Detail: fmt.Sprintf("op %d save: main part lists %v, body order with section settings last is %v", i, xmlv, ser)}
				}
			}
		}
		expect = after
		// ---- coq step
		var opc string
		switch op.Kind {
		case "Append":
			opc = "(Append " + elemsCoq(after[min(len(before), len(after)):]) + ")"
		case "EnsureSect":
			opc = fmt.Sprintf("(EnsureSect %d%%N)", op.Atoms[0])
		default:
			opc = op.coq()
		}
		x := "None"
		if isSave {
			x = "(Some " + elemsCoq(xmlv) + ")"
		}
		steps = append(steps, fmt.Sprintf("(%s, mkObs %s %s %s None)", opc, cBool(ok), elemsCoq(after), x))
	}
	return cList(steps), fail, nOK
}

func runC08(cfg *runCfg) error {
	res := newResult("C08", cfg.seed)
	r := newRng(cfg.seed + 808)
	dist := newDistinct()
	tmp := cfg.out
	res.Rule = "histories of 2-30 body calls: 15 append-type constructors, 9 calls that create section settings, RemoveElementAt / RemoveParagraphAt with indices from -2 to beyond the end, RemoveParagraph with live / already removed / foreign / nil handles, Save/ToBytes in between; every element carries an identity; non-trivial = at least 4 successful calls incl. one removal or save; distinct by hash of the op list"
	var coqCases []string
	shrunk := 0
	for ci := 0; ci < cfg.n; ci++ {
		cr := r.fork()
		n := cr.rangeI(2, 30)
		var ops []bodyOp
		for i := 0; i < n; i++ {
			ops = append(ops, genBodyOp(cr))
		}
		ops = append(ops, bodyOp{Kind: "SaveB"}, bodyOp{Kind: "Append", Ctor: "AddParagraph"}, bodyOp{Kind: "SaveB", File: true})
		coq, fail, nOK := runBodyCase(ops, tmp)
		res.Evaluations++
		nontrivial := false
		for _, op := range ops[:n] {
			res.Histogram[op.Kind+":"+op.Ctor+op.Which]++
			if op.Kind != "Append" && op.Kind != "EnsureSect" {
				nontrivial = true
			}
		}
		if nOK >= 4 && nontrivial {
			dist.add(ops)
		}
		if fail != nil {
			if shrunk < 15 {
				shrunk++
				cur := ops
				for changed := true; changed; {
					changed = false
					for i := 0; i < len(cur); i++ {
						cand := append(append([]bodyOp{}, cur[:i]...), cur[i+1:]...)
						if _, f, _ := runBodyCase(cand, tmp); f != nil && f.Clause == fail.Clause {
							cur, changed = cand, true
							i--
						}
					}
				}
				_, f2, _ := runBodyCase(cur, tmp)
				if f2 != nil {
					fail = f2
				}
				fail.Case = cur
			} else {
				fail.Case = ops
			}
			fail.CaseID = ci
			res.OracleFailures = append(res.OracleFailures, *fail)
		}
		coqCases = append(coqCases, coq)
		res.Cases = append(res.Cases, ops)
		if len(res.Samples) < 2 && nOK > 8 {
			res.Samples = append(res.Samples, map[string]interface{}{"ops": ops, "steps_as_checked": strings.Count(coq, "mkObs")})
		}
	}
	res.DistinctNontrivial = dist.n()
	res.Shards = writeShards(cfg.out, "c08cases", "From Coq Require Import ZArith NArith List.\nFrom WZ Require Import Model.Body Corr.BodyCorr.", "case", "mismatches", coqCases, 60)
	res.write(cfg.out)
	return nil
}
