package main

import (
	"bytes"
	"fmt"
	"image"
	"image/color"
	"image/png"
	"os"
	"os/signal"
	"path/filepath"
	"sort"
	"syscall"

	"github.com/zerx-lab/wordZero/pkg/document"
)

func init() { props["C05"] = runC05 }

func noisePNG(seed, side int) []byte {
	r := newRng(uint64(seed))
	img := image.NewRGBA(image.Rect(0, 0, side, side))
	for y := 0; y < side; y++ {
		for x := 0; x < side; x++ {
			v := r.next()
			img.Set(x, y, color.RGBA{uint8(v), uint8(v >> 8), uint8(v >> 16), 255})
		}
	}
	var b bytes.Buffer
	png.Encode(&b, img)
	return b.Bytes()
}

func buildSaveDoc(kind string) *document.Document {
	d := document.New()
	switch kind {
	case "tiny":
		d.AddParagraph("tiny")
	case "medium":
		for i := 0; i < 40; i++ {
			d.AddParagraph(fmt.Sprintf("paragraph %d with some text <&> to fill the buffer and beyond, lorem ipsum dolor sit amet", i))
		}
		t, _ := d.AddTable(&document.TableConfig{Rows: 6, Cols: 4, Width: 8000})
		if t != nil {
			t.SetCellText(1, 1, "cell")
		}
		d.AddHeader(document.HeaderFooterTypeDefault, "header")
		d.AddHeader(document.HeaderFooterTypeEven, "even pages")
		d.AddFooterWithPageNumber(document.HeaderFooterTypeFirst, "first page ", false)
		d.AddFootnote("body", "note")
	case "large":
		for i := 0; i < 3; i++ {
			d.AddImageFromData(noisePNG(i+1, 110), "n.png", document.ImageFormatPNG, 110, 110, nil)
		}
		// one part far larger than the compressor's window (64 KiB): only then does a failing write(2) come back from
		// the Write of the part itself - for smaller parts the compressor holds everything until the entry is closed
		d.AddImageFromData(noisePNG(9, 260), "big.png", document.ImageFormatPNG, 260, 260, nil)
		for i := 0; i < 60; i++ {
			d.AddParagraph(fmt.Sprintf("large document paragraph %d", i))
		}
		d.AddListItem("item", nil)
	}
	return d
}

func partsOf(b []byte) (map[string][]byte, error) {
	v, err := readPackage(b)
	if err != nil {
		return nil, err
	}
	return v.Parts, nil
}

func samePartSets(a, b map[string][]byte) string {
	var names []string
	for n := range a {
		names = append(names, n)
	}
	sort.Strings(names)
	if len(a) != len(b) {
		return fmt.Sprintf("%d parts vs %d parts", len(a), len(b))
	}
	for _, n := range names {
		if !bytes.Equal(a[n], b[n]) {
			return "part " + n + " differs"
		}
	}
	return ""
}

func setFsizeLimit(k uint64) error {
	var lim syscall.Rlimit
	if err := syscall.Getrlimit(syscall.RLIMIT_FSIZE, &lim); err != nil {
		return err
	}
	lim.Cur = k
	return syscall.Setrlimit(syscall.RLIMIT_FSIZE, &lim)
}

const rlimInf = ^uint64(0)

type saveCase struct {
	Doc  string `json:"doc"`
	What string `json:"what"` // fault | path
	K    int64  `json:"k"`    // fault offset (-1 none)
	Old  int    `json:"old_len"`
	Path string `json:"path_kind,omitempty"`
	Len  int    `json:"package_len"`
	OK   bool   `json:"save_returned_nil"`
	FLen int    `json:"file_len_after"`
}

func runC05(cfg *runCfg) error {
	res := newResult("C05", cfg.seed)
	r := newRng(cfg.seed + 505)
	signal.Ignore(syscall.SIGXFSZ)
	dir, err := os.MkdirTemp(cfg.out, "save")
	if err != nil {
		return err
	}
	defer os.RemoveAll(dir)
	res.Rule = "fault enumeration on the real Save: RLIMIT_FSIZE (SIGXFSZ ignored) makes write(2) fail at byte offset k of the output file; every offset of the tiny document, a stride over the medium one, sampled offsets plus all buffer boundaries of the large one (incompressible images, one of them several times the compressor's 64 KiB window so that write failures surface inside the Write of a part); plus target-path cases (nested new directories, existing smaller/larger package, existing larger junk, directory as target, /dev/full, parent is a file, non-ASCII name); non-trivial = fault strictly inside the file or a pre-existing target; distinct by (document, offset / path kind)"
	var coqCases []string
	dist := newDistinct()
	addCase := func(c saveCase) {
		k := "None"
		if c.K >= 0 {
			k = fmt.Sprintf("(Some %d%%N)", c.K)
		}
		coqCases = append(coqCases, fmt.Sprintf("mkCase %d%%N %s %d%%N %s %d%%N", c.Len, k, c.Old, cBool(c.OK), c.FLen))
		res.Cases = append(res.Cases, c)
		res.Evaluations++
		res.Histogram[c.Doc+":"+c.What+c.Path]++
		if (c.K > 0 && int(c.K) < c.Len) || c.Old > 0 {
			dist.add([]interface{}{c.Doc, c.K, c.Path, c.Old})
		}
	}
	fail := func(clause, detail string, c saveCase) {
		if len(res.OracleFailures) < 40 {
			res.OracleFailures = append(res.OracleFailures, OracleFailure{Clause: clause, Detail: detail, Case: c, CaseID: res.Evaluations})
		}
	}
	for _, kind := range []string{"tiny", "medium", "large"} {
		doc := buildSaveDoc(kind)
		ref, err := doc.ToBytes()
		if err != nil {
			return fmt.Errorf("ToBytes: %v", err)
		}
		refParts, err := partsOf(ref)
		if err != nil {
			return fmt.Errorf("ToBytes output unreadable: %v", err)
		}
		path := filepath.Join(dir, kind+".docx")
		if err := doc.Save(path); err != nil {
			fail("no_fault_ok", "Save without a fault failed: "+err.Error(), saveCase{Doc: kind})
			continue
		}
		full, _ := os.ReadFile(path)
		L := len(full)
		if fp, e := partsOf(full); e != nil {
			fail("file_is_package", "saved file unreadable: "+e.Error(), saveCase{Doc: kind, Len: L})
		} else if d := samePartSets(refParts, fp); d != "" {
			fail("same_as_tobytes", "Save and ToBytes disagree: "+d, saveCase{Doc: kind, Len: L})
		}
		// ---- fault offsets
		var offs []int
		switch kind {
		case "tiny":
			step := 1
			if cfg.tier != "thorough" && L > 4000 {
				step = 3
			}
			for k := 0; k <= L+2; k += step {
				offs = append(offs, k)
			}
		case "medium":
			step := 29
			if cfg.tier == "thorough" {
				step = 1
			}
			for k := 0; k <= L+2; k += step {
				offs = append(offs, k)
			}
			offs = append(offs, L-1, L, 4095, 4096, 4097)
		default:
			n := 260
			if cfg.tier == "thorough" {
				n = 6000
			}
			for i := 0; i < n; i++ {
				offs = append(offs, r.intn(L+1))
			}
			for b := 4096; b < L; b += 4096 {
				offs = append(offs, b-1, b, b+1)
			}
			offs = append(offs, 0, 1, L-2, L-1, L, L+1)
		}
		for _, k := range offs {
			if k < 0 {
				continue
			}
			os.Remove(path)
			if err := setFsizeLimit(uint64(k)); err != nil {
				return fmt.Errorf("setrlimit: %v", err)
			}
			serr := doc.Save(path)
			setFsizeLimit(rlimInf)
			got, _ := os.ReadFile(path)
			c := saveCase{Doc: kind, What: "fault", K: int64(k), Len: L, OK: serr == nil, FLen: len(got)}
			addCase(c)
			if k < L && serr == nil {
				fail("fault_implies_error", fmt.Sprintf("%s document (%d bytes): write failure at byte %d, Save returned nil, file has %d bytes", kind, L, k, len(got)), c)
			}
			if serr == nil {
				if fp, e := partsOf(got); e != nil {
					fail("ok_implies_complete", fmt.Sprintf("%s document: Save returned nil (fault offset %d) but the file is not a readable package: %v", kind, k, e), c)
				} else if d := samePartSets(refParts, fp); d != "" {
					fail("ok_implies_faithful", fmt.Sprintf("%s document: Save returned nil but the file differs from ToBytes: %s", kind, d), c)
				}
			}
			if k >= L && serr != nil {
				fail("no_fault_ok", fmt.Sprintf("%s document: limit %d >= size %d but Save failed: %v", kind, k, L, serr), c)
			}
		}
		// ---- target paths
		type pathCase struct {
			name    string
			prepare func() string
			wantErr bool
		}
		junk := bytes.Repeat([]byte("JUNKJUNK"), (L/8)+4000)
		bigDoc := buildSaveDoc("large")
		pcs := []pathCase{
			{"nested_new_dirs", func() string { return filepath.Join(dir, "a", "b", kind, "c", "out.docx") }, false},
			{"existing_smaller", func() string {
				p := filepath.Join(dir, kind+"-small.docx")
				os.WriteFile(p, []byte("x"), 0644)
				return p
			}, false},
			{"existing_larger_package", func() string {
				p := filepath.Join(dir, kind+"-over.docx")
				bigDoc.Save(p)
				bigDoc.AddParagraph("grow")
				bigDoc.Save(p)
				return p
			}, false},
			{"existing_larger_junk", func() string {
				p := filepath.Join(dir, kind+"-junk.docx")
				os.WriteFile(p, junk, 0644)
				return p
			}, false},
			{"non_ascii_name", func() string { return filepath.Join(dir, "文档-"+kind+" ü.docx") }, false},
			{"target_is_directory", func() string {
				p := filepath.Join(dir, kind+"-dir")
				os.MkdirAll(p, 0755)
				return p
			}, true},
			{"parent_is_file", func() string {
				p := filepath.Join(dir, kind+"-file")
				os.WriteFile(p, []byte("x"), 0644)
				return filepath.Join(p, "out.docx")
			}, true},
			{"dev_full", func() string { return "/dev/full" }, true},
		}
		for _, pc := range pcs {
			p := pc.prepare()
			old := 0
			if st, e := os.Stat(p); e == nil && st.Mode().IsRegular() {
				old = int(st.Size())
			}
			serr := doc.Save(p)
			c := saveCase{Doc: kind, What: "path:", Path: pc.name, K: -1, Old: old, Len: L, OK: serr == nil}
			if pc.wantErr {
				res.Evaluations++
				res.Histogram[kind+":path:"+pc.name]++
				dist.add([]interface{}{kind, pc.name})
				if serr == nil {
					fail("unwritable_target_error", fmt.Sprintf("%s document: Save to %s (%s) returned nil", kind, p, pc.name), c)
				}
				continue
			}
			got, _ := os.ReadFile(p)
			c.FLen = len(got)
			addCase(c)
			if serr != nil {
				fail("no_fault_ok", fmt.Sprintf("%s document: Save to %s failed: %v", kind, pc.name, serr), c)
				continue
			}
			if len(got) != L {
				fail("ok_implies_faithful", fmt.Sprintf("%s document saved over %s: file has %d bytes, the package has %d (stale bytes of the previous file remain)", kind, pc.name, len(got), L), c)
			}
			if fp, e := partsOf(got); e != nil {
				fail("ok_implies_complete", fmt.Sprintf("%s document saved over %s: not a readable package: %v", kind, pc.name, e), c)
			} else if d := samePartSets(refParts, fp); d != "" {
				fail("ok_implies_faithful", fmt.Sprintf("%s document saved over %s differs from ToBytes: %s", kind, pc.name, d), c)
			}
		}
	}
	res.DistinctNontrivial = dist.n()
	for i := 0; i < 3 && i < len(res.Cases); i++ {
		res.Samples = append(res.Samples, res.Cases[len(res.Cases)*i/3])
	}
	res.Shards = writeShards(cfg.out, "c05cases", "From Coq Require Import List NArith.\nFrom WZ Require Import Model.SaveIO Corr.SaveIOCorr.", "case", "mismatches", coqCases, 400)
	res.write(cfg.out)
	return nil
}
