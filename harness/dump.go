package main

// Generic reflection dump of the library's document structures into a tree that the Coq side can
// read (Model/Schema.v: dtree), and a structural diff that names the first differing paths.

import (
	"fmt"
	"reflect"
	"sort"
	"strings"
)

type dnode struct {
	Kind   string // struct | ptr | nil | str | list | bool | int
	Type   string
	Fields []dfield
	Elems  []*dnode
	Str    string
	Ptr    *dnode
}
type dfield struct {
	Name string
	Val  *dnode
	Pos  int  // position among the fields that carry an xml tag (the order of Gen/Schema.v w_schema); -1 without tag
	NS   bool // a namespace declaration (xmlns:...), not data
}

func dumpValue(v reflect.Value) *dnode {
	switch v.Kind() {
	case reflect.Ptr, reflect.Interface:
		if v.IsNil() {
			return &dnode{Kind: "nil"}
		}
		return &dnode{Kind: "ptr", Ptr: dumpValue(v.Elem())}
	case reflect.Struct:
		n := &dnode{Kind: "struct", Type: v.Type().Name()}
		pos := 0
		for i := 0; i < v.NumField(); i++ {
			f := v.Type().Field(i)
			tag := f.Tag.Get("xml")
			if f.Name == "XMLName" {
				continue
			}
			p := -1
			if tag != "" {
				p = pos
				pos++
			}
			if f.PkgPath != "" {
				continue
			}
			ns := strings.HasPrefix(tag, "xmlns:") || strings.HasPrefix(tag, "xmlns,") || tag == "xmlns"
			if ns {
				// namespace declarations are not data: compared as empty
				n.Fields = append(n.Fields, dfield{f.Name, &dnode{Kind: "str"}, p, true})
				continue
			}
			n.Fields = append(n.Fields, dfield{f.Name, dumpValue(v.Field(i)), p, false})
		}
		// a text without content is not written; its xml:space attribute is then not data either
		if n.Type == "Text" || n.Type == "InstrText" {
			var content, space *dnode
			for _, f := range n.Fields {
				if f.Name == "Content" {
					content = f.Val
				}
				if f.Name == "Space" {
					space = f.Val
				}
			}
			if content != nil && space != nil && content.Str == "" {
				space.Str = ""
			}
		}
		return n
	case reflect.Slice, reflect.Array:
		n := &dnode{Kind: "list"}
		if v.Kind() == reflect.Slice && v.Type().Elem().Kind() == reflect.Uint8 {
			return &dnode{Kind: "str", Str: fmt.Sprintf("bytes:%x", v.Bytes())}
		}
		for i := 0; i < v.Len(); i++ {
			n.Elems = append(n.Elems, dumpValue(v.Index(i)))
		}
		return n
	case reflect.String:
		return &dnode{Kind: "str", Str: v.String()}
	case reflect.Bool:
		return &dnode{Kind: "str", Str: fmt.Sprint(v.Bool())}
	case reflect.Int, reflect.Int64, reflect.Int32, reflect.Float64:
		return &dnode{Kind: "str", Str: fmt.Sprint(v.Interface())}
	}
	return &dnode{Kind: "str", Str: fmt.Sprintf("?%s", v.Kind())}
}

// isZero: nil pointer, empty string, empty list, or a struct / pointer to a struct all of whose fields are zero
func (n *dnode) isZero() bool {
	switch n.Kind {
	case "nil":
		return true
	case "str":
		return n.Str == "" || n.Str == "false" || n.Str == "0"
	case "list":
		return len(n.Elems) == 0
	case "struct":
		for _, f := range n.Fields {
			if !f.Val.isZero() {
				return false
			}
		}
		return true
	case "ptr":
		return false
	}
	return false
}

// diffNodes appends the paths at which a and b differ (type names are part of the path).
func diffNodes(path string, a, b *dnode, out *[]string, limit int) {
	if len(*out) >= limit {
		return
	}
	// containers: a pointer to an all-zero properties struct is the same as no pointer
	az, bz := a.Kind == "nil" || (a.Kind == "ptr" && a.Ptr.Kind == "struct" && containerTypes[a.Ptr.Type] && a.Ptr.isZero()), b.Kind == "nil" || (b.Kind == "ptr" && b.Ptr.Kind == "struct" && containerTypes[b.Ptr.Type] && b.Ptr.isZero())
	if az && bz {
		return
	}
	if a.Kind != b.Kind {
		*out = append(*out, fmt.Sprintf("%s: %s vs %s", path, a.brief(), b.brief()))
		return
	}
	switch a.Kind {
	case "ptr":
		diffNodes(path, a.Ptr, b.Ptr, out, limit)
	case "struct":
		if a.Type != b.Type {
			*out = append(*out, fmt.Sprintf("%s: type %s vs %s", path, a.Type, b.Type))
			return
		}
		for i := range a.Fields {
			diffNodes(path+"/"+a.Type+"."+a.Fields[i].Name, a.Fields[i].Val, b.Fields[i].Val, out, limit)
		}
	case "list":
		if len(a.Elems) != len(b.Elems) {
			*out = append(*out, fmt.Sprintf("%s: %d elements vs %d", path, len(a.Elems), len(b.Elems)))
			return
		}
		for i := range a.Elems {
			diffNodes(path, a.Elems[i], b.Elems[i], out, limit)
		}
	case "str":
		if a.Str != b.Str {
			*out = append(*out, fmt.Sprintf("%s: %q vs %q", path, a.Str, b.Str))
		}
	}
}

func (n *dnode) brief() string {
	switch n.Kind {
	case "nil":
		return "absent"
	case "ptr":
		return "present(" + n.Ptr.brief() + ")"
	case "struct":
		return n.Type
	case "str":
		return fmt.Sprintf("%q", n.Str)
	case "list":
		return fmt.Sprintf("list[%d]", len(n.Elems))
	}
	return n.Kind
}

// property containers: an empty one means the same as an absent one
var containerTypes = map[string]bool{"ParagraphProperties": true, "RunProperties": true, "TableProperties": true, "TableCellProperties": true, "TableRowProperties": true, "NumberingProperties": true}

// lossKey strips indices and values from a diff line: "/Paragraph.Properties/ParagraphProperties.KeepNext"
func lossKey(d string) string {
	i := strings.Index(d, ": ")
	if i < 0 {
		return d
	}
	p := d[:i]
	segs := strings.Split(p, "/")
	if len(segs) > 2 {
		segs = segs[len(segs)-2:]
	}
	return strings.Join(segs, "/")
}

func sortedSet(m map[string]int) []string {
	var ks []string
	for k := range m {
		ks = append(ks, k)
	}
	sort.Strings(ks)
	return ks
}

// ---- Coq notation (Corr/SchemaCorr.v: st) ---------------------------------------------------

// cStrRaw prints a Coq string literal with the bytes as they are (the strings of the workload are valid UTF-8).
func cStrRaw(s string) string {
	return "\"" + strings.ReplaceAll(s, "\"", "\"\"") + "\""
}

// emptyContainer: a pointer to a property container all of whose fields are empty counts as no pointer
func emptyContainer(n *dnode) bool {
	return n.Kind == "ptr" && n.Ptr.Kind == "struct" && containerTypes[n.Ptr.Type] && n.Ptr.isZero()
}

// toSt prints a node; inList says that the node is an element of a slice (a pointer element is the struct itself)
func (n *dnode) toSt(inList bool) string {
	switch n.Kind {
	case "nil":
		return "SL []"
	case "str":
		return "SS " + cStrRaw(n.Str)
	case "ptr":
		if inList {
			return n.Ptr.toSt(true)
		}
		if emptyContainer(n) {
			return "SL []"
		}
		if n.Ptr.Kind != "struct" {
			return n.Ptr.toSt(false)
		}
		return "SL [" + n.Ptr.toSt(true) + "]"
	case "list":
		xs := make([]string, 0, len(n.Elems))
		for _, e := range n.Elems {
			xs = append(xs, e.toSt(true))
		}
		return "SL [" + strings.Join(xs, "; ") + "]"
	case "struct":
		var fs []string
		for _, f := range n.Fields {
			if f.Pos < 0 || f.NS {
				continue
			}
			v := f.Val
			if v.Kind == "nil" || (v.Kind == "str" && v.Str == "") || (v.Kind == "list" && len(v.Elems) == 0) || emptyContainer(v) {
				continue
			}
			var sv string
			if v.Kind == "struct" {
				sv = "SL [" + v.toSt(true) + "]" // a struct held by value
			} else {
				sv = v.toSt(false)
			}
			fs = append(fs, fmt.Sprintf("(%d, %s)", f.Pos, sv))
		}
		s := "SN " + cStrRaw(n.Type) + " [" + strings.Join(fs, "; ") + "]"
		if inList {
			return s
		}
		return s
	}
	return "SS \"?\""
}

// bodySt: the body as the model sees it
func bodySt(elems *dnode) string {
	return "SN \"Body\" [(0, " + elems.toSt(false) + ")]"
}

// fieldsSet records which (type, field) pairs hold something in the tree
func (n *dnode) fieldsSet(m map[string]int) {
	switch n.Kind {
	case "ptr":
		n.Ptr.fieldsSet(m)
	case "list":
		for _, e := range n.Elems {
			e.fieldsSet(m)
		}
	case "struct":
		for _, f := range n.Fields {
			if f.Pos < 0 || f.NS {
				continue
			}
			if !(f.Val.Kind == "nil" || (f.Val.Kind == "str" && f.Val.Str == "") || (f.Val.Kind == "list" && len(f.Val.Elems) == 0)) {
				m[n.Type+"."+f.Name]++
			}
			f.Val.fieldsSet(m)
		}
	}
}

func (n *dnode) hasType(t string) bool {
	switch n.Kind {
	case "ptr":
		return n.Ptr.hasType(t)
	case "list":
		for _, e := range n.Elems {
			if e.hasType(t) {
				return true
			}
		}
	case "struct":
		if n.Type == t {
			return true
		}
		for _, f := range n.Fields {
			if f.Val.hasType(t) {
				return true
			}
		}
	}
	return false
}
