package main

import (
	"bytes"
	"crypto/sha1"
	"encoding/hex"
	"encoding/json"
	"fmt"
	"io"
	"os"
	"os/exec"
	"path/filepath"
	"sort"
	"strings"
	"sync"

	"github.com/zerx-lab/wordZero/pkg/document"
	"github.com/zerx-lab/wordZero/pkg/markdown"
	"github.com/zerx-lab/wordZero/pkg/style"
)

func init() {
	props["C07"] = runC07
	props["C07child"] = runC07Child
}

type docOp struct {
	Kind string `json:"k"`
	A    int    `json:"a,omitempty"`
	S    string `json:"s,omitempty"`
}

type planStep struct {
	D  int   `json:"d"`
	Op docOp `json:"op"`
}

type plan struct {
	Name       string     `json:"name"`
	Steps      []planStep `json:"steps,omitempty"` // sequential interleaving
	Concurrent [][]docOp  `json:"concurrent,omitempty"`
	NDocs      int        `json:"ndocs"`
	Origin     string     `json:"origin,omitempty"` // how the documents come into being: "" = New, "template", "opened"
	OriginA    int        `json:"origin_a,omitempty"`
}

// originBase: a document with a chosen number of relationship-creating elements (headers, footers, lists, notes,
// pictures), the common ancestor of the documents of a plan
func originBase(a int) *document.Document {
	b := document.New()
	b.AddParagraph("Base {{name}}")
	for j := 0; j < a%11; j++ {
		switch j % 9 {
		case 6:
			b.AddFootnote("base text", "base footnote")
		case 7:
			b.AddEndnote("base text", "base endnote")
		case 8:
			b.AddFootnote("base text", "second base footnote")
		case 0:
			b.AddHeader(document.HeaderFooterTypeDefault, "base header")
		case 1:
			b.AddFooter(document.HeaderFooterTypeDefault, "base footer")
		case 2:
			b.AddListItem("base item", &document.ListConfig{Type: document.ListTypeNumber})
		case 3:
			b.AddHeader(document.HeaderFooterTypeFirst, "first header")
		case 4:
			b.AddImageFromData(imageBytes("png", 3), "b.png", document.ImageFormatPNG, 4, 4, nil)
		case 5:
			b.AddFooter(document.HeaderFooterTypeEven, "even footer")
		}
	}
	return b
}

// makeDocs: the documents of a plan. "template": all rendered from one template of one engine; "opened": all opened
// from the same bytes; otherwise all new.
func makeDocs(p *plan) []*document.Document {
	docs := make([]*document.Document, p.NDocs)
	switch p.Origin {
	case "template":
		te := document.NewTemplateEngine()
		if _, err := te.LoadTemplateFromDocument("base", originBase(p.OriginA)); err == nil {
			for i := range docs {
				data := document.NewTemplateData()
				data.SetVariable("name", "n")
				if nd, err := te.RenderTemplateToDocument("base", data); err == nil && nd != nil {
					docs[i] = nd
				}
			}
		}
	case "opened":
		if raw, err := originBase(p.OriginA).ToBytes(); err == nil {
			for i := range docs {
				if nd, err := document.OpenFromMemory(io.NopCloser(bytes.NewReader(raw))); err == nil {
					docs[i] = nd
				}
			}
		}
	}
	for i := range docs {
		if docs[i] == nil {
			docs[i] = document.New()
		}
	}
	return docs
}

var docOpKinds = []string{"para", "heading", "footnote", "endnote", "list", "image", "header", "margins", "style_edit", "style_add", "table", "title", "render", "toc", "removenote", "fromMarkdown", "bullet", "formatted", "save", "savefile"}

func genDocOps(r *rng, n int) []docOp {
	var ops []docOp
	for i := 0; i < n; i++ {
		k := docOpKinds[r.intn(len(docOpKinds))]
		if k == "fromMarkdown" && i > 0 {
			k = "para"
		}
		ops = append(ops, docOp{Kind: k, A: r.intn(50), S: fmt.Sprintf("t%d", r.intn(1000))})
	}
	return ops
}

// held: the bytes a caller obtained from ToBytes in the middle of a history and still holds at the end, per document
var (
	heldMu sync.Mutex
	held   = map[**document.Document][][]byte{}
)

// heldProjection: what the held byte slices show now (the packages canonicalised; the time stamps of docProps left out)
func heldProjection(dp **document.Document) string {
	heldMu.Lock()
	hs := held[dp]
	heldMu.Unlock()
	var out []string
	for _, b := range hs {
		v, err := readPackage(b)
		if err != nil {
			out = append(out, "unreadable: "+err.Error())
			continue
		}
		var names []string
		for n := range v.Parts {
			if !strings.HasPrefix(n, "docProps/") {
				names = append(names, n)
			}
		}
		sort.Strings(names)
		h := sha1.New()
		for _, n := range names {
			h.Write([]byte(n + "\x00" + canonPart(n, v.Parts[n]) + "\x00"))
		}
		out = append(out, hex.EncodeToString(h.Sum(nil)[:8]))
	}
	return strings.Join(out, " ")
}

// saved files: every document of a plan saves to a name of its own in one directory - the names share their stem and
// differ in the extension (report.docx, report.dotx, report.docm)
var (
	saveDir   string
	docIndex  = map[**document.Document]int{}
	saveFails = map[**document.Document]int{}
)

func savePath(dp **document.Document) string {
	return filepath.Join(saveDir, "report"+[]string{".docx", ".dotx", ".docm"}[docIndex[dp]%3])
}

// fileProjection: what the file the document was last saved to shows now, and how many of its saves failed
func fileProjection(dp **document.Document) string {
	heldMu.Lock()
	nf := saveFails[dp]
	heldMu.Unlock()
	b, err := os.ReadFile(savePath(dp))
	if err != nil {
		return fmt.Sprintf("no file; failed saves %d", nf)
	}
	heldMu.Lock()
	keep := held[dp]
	held[dp] = [][]byte{b}
	heldMu.Unlock()
	h := heldProjection(dp)
	heldMu.Lock()
	held[dp] = keep
	heldMu.Unlock()
	return fmt.Sprintf("%s; failed saves %d", h, nf)
}

func applyDocOp(dp **document.Document, op docOp) {
	d := *dp
	switch op.Kind {
	case "savefile":
		if saveDir != "" {
			if err := d.Save(savePath(dp)); err != nil {
				heldMu.Lock()
				saveFails[dp]++
				heldMu.Unlock()
			}
		}
	case "save":
		if b, err := d.ToBytes(); err == nil {
			heldMu.Lock()
			held[dp] = append(held[dp], b)
			heldMu.Unlock()
		}
	case "para":
		d.AddParagraph(op.S)
	case "formatted":
		d.AddFormattedParagraph(op.S, &document.TextFormat{Bold: op.A%2 == 0, FontSize: 10 + op.A%9})
	case "heading":
		d.AddHeadingParagraph(op.S, 1+op.A%4)
	case "footnote":
		d.AddFootnote(op.S, "fn "+op.S)
	case "endnote":
		d.AddEndnote(op.S, "en "+op.S)
	case "removenote":
		if op.A%4 == 3 {
			d.RemoveEndnote(fmt.Sprint(1 + op.A%3))
		} else {
			d.RemoveFootnote(fmt.Sprint(1 + op.A%3))
		}
	case "list":
		d.AddListItem(op.S, &document.ListConfig{Type: []document.ListType{document.ListTypeNumber, document.ListTypeLowerLetter, document.ListTypeBullet}[op.A%3], BulletSymbol: document.BulletTypeDot, StartNumber: 1 + op.A%4, IndentLevel: op.A % 3})
	case "bullet":
		d.AddBulletList(op.S, op.A%2, document.BulletTypeDot)
	case "image":
		w, h := imgDims(op.A)
		d.AddImageFromData(imageBytes("png", op.A), "i.png", document.ImageFormatPNG, w, h, nil)
	case "header":
		d.AddHeader([]document.HeaderFooterType{document.HeaderFooterTypeDefault, document.HeaderFooterTypeFirst}[op.A%2], op.S)
	case "margins":
		d.SetPageMargins(float64(10+op.A%20), 20, 20, 20)
	case "style_edit":
		// in-place edit of a predefined style through the manager of THIS document
		sm := d.GetStyleManager()
		id := []string{"Heading1", "Normal", "Heading2", "Quote"}[op.A%4]
		if st := sm.GetStyle(id); st != nil {
			if st.RunPr == nil {
				st.RunPr = &style.RunProperties{}
			}
			if st.RunPr.FontSize == nil {
				st.RunPr.FontSize = &style.FontSize{}
			}
			st.RunPr.FontSize.Val = fmt.Sprint(20 + op.A)
			if st.ParagraphPr != nil && st.ParagraphPr.Spacing != nil {
				st.ParagraphPr.Spacing.Before = fmt.Sprint(100 + op.A)
			}
		}
	case "style_add":
		sm := d.GetStyleManager()
		st := sm.CreateCustomStyle(fmt.Sprintf("Custom%d", op.A%3), "c", style.StyleTypeParagraph, "Normal")
		st.RunPr = &style.RunProperties{Bold: &style.Bold{}}
	case "table":
		t, err := d.AddTable(&document.TableConfig{Rows: 2, Cols: 2, Width: 5000})
		if err == nil {
			t.SetCellText(0, 0, op.S)
		}
	case "title":
		d.SetTitle(op.S)
	case "toc":
		d.GenerateTOC(nil)
	case "render":
		te := document.NewTemplateEngine()
		if _, err := te.LoadTemplateFromDocument("t", d); err == nil {
			data := document.NewTemplateData()
			data.SetVariable("name", op.S)
			if nd, err := te.RenderTemplateToDocument("t", data); err == nil && nd != nil {
				*dp = nd
			}
		}
	case "fromMarkdown":
		conv := markdown.NewConverter(markdown.DefaultOptions())
		if nd, err := conv.ConvertString("# "+op.S+"\n\ntext **b** `c`\n\n- a\n- b\n", nil); err == nil && nd != nil {
			*dp = nd
		}
	}
}

// canonical form of an XML part: children of the root sorted (map iteration order in the library
// decides the order of styles, notes and numbering definitions)
func canonPart(name string, data []byte) string {
	if !isXMLPart(name) {
		h := sha1.Sum(data)
		return hex.EncodeToString(h[:8])
	}
	root, err := parseXML(data)
	if err != nil {
		return "ILLFORMED:" + err.Error()
	}
	var kids []string
	for _, c := range root.Children {
		kids = append(kids, dumpNode(c))
	}
	if name != "word/document.xml" {
		sort.Strings(kids)
	}
	h := sha1.Sum([]byte(root.Name + "|" + strings.Join(kids, "|")))
	return hex.EncodeToString(h[:8])
}

func dumpNode(n *XNode) string {
	var b strings.Builder
	b.WriteString("<" + n.Name)
	var ks []string
	for k := range n.Attrs {
		ks = append(ks, k)
	}
	sort.Strings(ks)
	for _, k := range ks {
		b.WriteString(" " + k + "=" + n.Attrs[k])
	}
	b.WriteString(">" + n.Text)
	for _, c := range n.Children {
		b.WriteString(dumpNode(c))
	}
	b.WriteString("</>")
	return b.String()
}

func projectDoc(d *document.Document) map[string]string {
	out := map[string]string{}
	if d == nil {
		return out
	}
	data, err := d.ToBytes()
	if err != nil {
		out["ToBytes"] = "error: " + err.Error()
		return out
	}
	v, err := readPackage(data)
	if err != nil {
		out["ToBytes"] = "unreadable: " + err.Error()
		return out
	}
	for n, b := range v.Parts {
		if strings.HasPrefix(n, "docProps/") {
			continue // creation / modification time stamps
		}
		out["part:"+n] = canonPart(n, b)
	}
	out["acc:footnotes"] = fmt.Sprint(d.GetFootnoteCount())
	out["acc:endnotes"] = fmt.Sprint(d.GetEndnoteCount())
	out["acc:paragraphs"] = fmt.Sprint(len(d.Body.GetParagraphs()))
	ps := d.GetPageSettings()
	out["acc:page"] = fmt.Sprintf("%s %.3f", ps.Size, ps.MarginTop)
	for _, id := range []string{"Heading1", "Normal", "Heading2", "Quote", "Custom0"} {
		if st := d.GetStyleManager().GetStyleWithInheritance(id); st != nil {
			b, _ := json.Marshal(st)
			h := sha1.Sum(b)
			out["acc:style:"+id] = hex.EncodeToString(h[:6])
		}
	}
	return out
}

func runC07Child(cfg *runCfg) error {
	raw, err := os.ReadFile(cfg.replay)
	if err != nil {
		return err
	}
	var p plan
	if err := json.Unmarshal(raw, &p); err != nil {
		return err
	}
	if p.Origin != "" {
		imageBytes("png", 3)
	}
	docs := makeDocs(&p)
	saveDir = filepath.Join(cfg.out, "saved")
	os.MkdirAll(saveDir, 0755)
	for i := range docs {
		docIndex[&docs[i]] = i
	}
	if len(p.Concurrent) > 0 {
		for _, h := range p.Concurrent { // fill the harness's own image cache before going concurrent
			for _, op := range h {
				if op.Kind == "image" {
					imageBytes("png", op.A)
				}
			}
		}
		var wg sync.WaitGroup
		for i, h := range p.Concurrent {
			wg.Add(1)
			go func(i int, h []docOp) {
				defer wg.Done()
				for _, op := range h {
					applyDocOp(&docs[i], op)
				}
				docs[i].ToBytes() // saving is part of what runs concurrently
			}(i, h)
		}
		wg.Wait()
	} else {
		for _, s := range p.Steps {
			applyDocOp(&docs[s.D], s.Op)
		}
	}
	var out []map[string]string
	heldNow := make([]string, len(docs))
	fileNow := make([]string, len(docs))
	for i := range docs { // before anything else is serialised
		heldNow[i] = heldProjection(&docs[i])
		fileNow[i] = fileProjection(&docs[i])
	}
	for i, d := range docs {
		m := projectDoc(d)
		m["held:bytes"] = heldNow[i]
		m["held:file"] = fileNow[i]
		out = append(out, m)
	}
	b, _ := json.Marshal(out)
	return os.WriteFile(filepath.Join(cfg.out, "proj.json"), b, 0644)
}

func runPlan(bin string, p plan, dir string, id int) ([]map[string]string, string, error) {
	sub := filepath.Join(dir, fmt.Sprintf("p%d", id))
	os.MkdirAll(sub, 0755)
	defer os.RemoveAll(sub)
	pf := filepath.Join(sub, "plan.json")
	b, _ := json.Marshal(p)
	os.WriteFile(pf, b, 0644)
	cmd := exec.Command(bin, "C07child", "-out", sub, "-replay", pf)
	cmd.Env = append(os.Environ(), "WZH_CHILD=1", "GORACE=halt_on_error=0 exitcode=0")
	var stderr bytes.Buffer
	cmd.Stderr = &stderr
	if err := cmd.Run(); err != nil {
		return nil, stderr.String(), fmt.Errorf("child failed: %v: %s", err, lastLines(stderr.String(), 6))
	}
	raw, err := os.ReadFile(filepath.Join(sub, "proj.json"))
	if err != nil {
		return nil, stderr.String(), err
	}
	var out []map[string]string
	json.Unmarshal(raw, &out)
	return out, stderr.String(), nil
}

func lastLines(s string, n int) string {
	ls := strings.Split(strings.TrimSpace(s), "\n")
	if len(ls) > n {
		ls = ls[len(ls)-n:]
	}
	return strings.Join(ls, " | ")
}

func diffProj(a, b map[string]string) string {
	var ks []string
	for k := range a {
		ks = append(ks, k)
	}
	for k := range b {
		if _, ok := a[k]; !ok {
			ks = append(ks, k)
		}
	}
	sort.Strings(ks)
	var d []string
	for _, k := range ks {
		if a[k] != b[k] {
			d = append(d, k)
		}
	}
	return strings.Join(d, ", ")
}

type pairCase struct {
	H1      []docOp `json:"h1"`
	H2      []docOp `json:"h2"`
	Origin  string  `json:"origin,omitempty"`
	OriginA int     `json:"origin_a,omitempty"`
}

func runC07(cfg *runCfg) error {
	res := newResult("C07", cfg.seed)
	r := newRng(cfg.seed + 707)
	bin, _ := os.Executable()
	raceBin := filepath.Join(filepath.Dir(bin), "wzh_race")
	if _, err := os.Stat(raceBin); err != nil {
		raceBin = ""
	}
	res.Extra["race_binary"] = raceBin != ""
	res.Rule = "pairs of call histories (20 kinds of calls: saving in the middle of a history with the bytes held until the end, saving to files whose names share their stem (report.docx, report.dotx ...) in one directory, content, notes incl. removal, lists, images, headers, page settings, in-place edits of predefined styles through the document's own style manager, custom styles, tables, properties, TOC, template rendering, creation through the Markdown converter) on two distinct documents - both new, both rendered from one template of one engine (whose base document carries 0-10 relationship-creating elements, notes included), or both opened from the same bytes; each pair runs in fresh processes: each history alone, both orders sequentially, a random interleaving, and concurrently in goroutines (under the race detector when available); the projection of each document (every part canonicalised, accessors) must equal its projection alone; non-trivial = both histories have at least 3 calls; distinct by hash of the pair"
	dist := newDistinct()
	type job struct {
		ci   int
		pc   pairCase
		conc bool
	}
	var jobs []job
	nConc := cfg.n / 6
	for ci := 0; ci < cfg.n; ci++ {
		cr := r.fork()
		pc := pairCase{H1: genDocOps(cr, cr.rangeI(2, 9)), H2: genDocOps(cr, cr.rangeI(2, 9))}
		switch o := cr.intn(20); {
		case o < 7:
			pc.Origin, pc.OriginA = "template", cr.intn(8)
		case o < 10:
			pc.Origin, pc.OriginA = "opened", cr.intn(8)
		}
		res.Histogram["origin:"+map[string]string{"": "new", "template": "rendered from one template", "opened": "opened from the same bytes"}[pc.Origin]]++
		jobs = append(jobs, job{ci, pc, ci < nConc})
		if len(pc.H1) >= 3 && len(pc.H2) >= 3 {
			dist.add(pc)
		}
		for _, o := range append(append([]docOp{}, pc.H1...), pc.H2...) {
			res.Histogram[o.Kind]++
		}
		res.Cases = append(res.Cases, pc)
	}
	var mu sync.Mutex
	var coqCases []string
	results := make([]string, len(jobs))
	var wg sync.WaitGroup
	sem := make(chan struct{}, 12)
	for ji := range jobs {
		wg.Add(1)
		sem <- struct{}{}
		go func(ji int) {
			defer wg.Done()
			defer func() { <-sem }()
			j := jobs[ji]
			jr := newRng(cfg.seed*1000 + uint64(j.ci))
			mk := func(name string, steps []planStep) plan {
				return plan{Name: name, Steps: steps, NDocs: 2, Origin: j.pc.Origin, OriginA: j.pc.OriginA}
			}
			seq := func(d int, h []docOp) []planStep {
				var s []planStep
				for _, o := range h {
					s = append(s, planStep{d, o})
				}
				return s
			}
			var inter []planStep
			i1, i2 := 0, 0
			for i1 < len(j.pc.H1) || i2 < len(j.pc.H2) {
				if i2 >= len(j.pc.H2) || (i1 < len(j.pc.H1) && jr.chance(50)) {
					inter = append(inter, planStep{0, j.pc.H1[i1]})
					i1++
				} else {
					inter = append(inter, planStep{1, j.pc.H2[i2]})
					i2++
				}
			}
			plans := []plan{mk("alone1", seq(0, j.pc.H1)), mk("alone2", seq(1, j.pc.H2)),
				mk("seq12", append(seq(0, j.pc.H1), seq(1, j.pc.H2)...)), mk("seq21", append(seq(1, j.pc.H2), seq(0, j.pc.H1)...)),
				mk("interleaved", inter)}
			if j.conc {
				plans = append(plans, plan{Name: "concurrent", Concurrent: [][]docOp{j.pc.H1, j.pc.H2}, NDocs: 2, Origin: j.pc.Origin, OriginA: j.pc.OriginA})
			}
			var base [2]map[string]string
			flags := []string{}
			for pi, p := range plans {
				b := bin
				if p.Name == "concurrent" && raceBin != "" {
					b = raceBin
				}
				out, stderr, err := runPlan(b, p, cfg.out, ji*10+pi)
				ok := true
				var why string
				if err != nil {
					ok, why = false, err.Error()
				} else {
					switch p.Name {
					case "alone1":
						base[0] = out[0]
					case "alone2":
						base[1] = out[1]
					default:
						for d := 0; d < 2; d++ {
							if df := diffProj(base[d], out[d]); df != "" {
								ok, why = false, fmt.Sprintf("document %d differs from its run alone in: %s", d+1, df)
							}
						}
					}
					if strings.Contains(stderr, "DATA RACE") {
						ok, why = false, "data race reported: "+lastLines(stderr[strings.Index(stderr, "DATA RACE"):], 12)
					}
				}
				flags = append(flags, cBool(ok))
				if !ok {
					mu.Lock()
					if len(res.OracleFailures) < 30 {
						clause := "independent"
						if strings.Contains(why, "data race") {
							clause = "race_free"
						}
						res.OracleFailures = append(res.OracleFailures, OracleFailure{Clause: clause, Detail: fmt.Sprintf("plan %s: %s", p.Name, why), Case: map[string]interface{}{"pair": j.pc, "plan": p}, CaseID: j.ci})
					}
					mu.Unlock()
				}
			}
			results[ji] = cList(flags)
		}(ji)
	}
	wg.Wait()
	for _, s := range results {
		coqCases = append(coqCases, s)
	}
	res.Evaluations = len(jobs)
	res.DistinctNontrivial = dist.n()
	if len(jobs) > 0 {
		res.Samples = append(res.Samples, jobs[0].pc)
	}
	res.Shards = writeShards(cfg.out, "c07cases", "From Coq Require Import List Bool ZArith String.\nFrom WZ Require Import Corr.WorldCorr.", "case", "mismatches", coqCases, 500)
	res.write(cfg.out)
	return nil
}
