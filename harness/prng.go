package main

// splitmix64: every random choice of a run derives from one seed.
type rng struct{ s uint64 }

func newRng(seed uint64) *rng { return &rng{s: seed*0x9E3779B97F4A7C15 + 0x1234567} }

func (r *rng) next() uint64 {
	r.s += 0x9E3779B97F4A7C15
	z := r.s
	z = (z ^ (z >> 30)) * 0xBF58476D1CE4E5B9
	z = (z ^ (z >> 27)) * 0x94D049BB133111EB
	return z ^ (z >> 31)
}

// intn returns a value in [0,n).
func (r *rng) intn(n int) int {
	if n <= 0 {
		return 0
	}
	return int(r.next() % uint64(n))
}

// rangeI returns a value in [lo,hi].
func (r *rng) rangeI(lo, hi int) int { return lo + r.intn(hi-lo+1) }

func (r *rng) chance(pct int) bool { return r.intn(100) < pct }

func (r *rng) fork() *rng { return newRng(r.next()) }

// pick chooses an index according to integer weights.
func (r *rng) pick(weights []int) int {
	t := 0
	for _, w := range weights {
		t += w
	}
	x := r.intn(t)
	for i, w := range weights {
		if x < w {
			return i
		}
		x -= w
	}
	return len(weights) - 1
}

func pickS(r *rng, xs []string) string { return xs[r.intn(len(xs))] }
