package main

import (
	"encoding/json"
	"fmt"
	"reflect"
	"strconv"
	"strings"

	"github.com/zerx-lab/wordZero/pkg/document"
)

func init() { props["C09"] = runC09 }

type tblOp struct {
	Kind   string `json:"kind"`
	A      []int  `json:"a,omitempty"`
	Data   []int  `json:"data,omitempty"`
	Append bool   `json:"append,omitempty"` // through AppendRow / AppendColumn
}

type cellV struct {
	Span  int    // 0 = none
	VM    string // "", "restart", "continue" (an element without a value continues, as in OOXML), or the value as found
	VMRaw string // "nil" or "set:<value>": what is stored (for the equality oracles only; the model does not see it)
	Paras []int
}
type tableV struct {
	Grid   []int
	NoGrid bool
	Rows   [][]cellV
}

func viewTable(t *document.Table) tableV {
	var v tableV
	if t.Grid == nil {
		v.NoGrid = true
	} else {
		for _, c := range t.Grid.Cols {
			w, _ := strconv.Atoi(c.W)
			v.Grid = append(v.Grid, w)
		}
	}
	for _, r := range t.Rows {
		var row []cellV
		for _, c := range r.Cells {
			cv := cellV{}
			if c.Properties != nil {
				if c.Properties.GridSpan != nil {
					cv.Span, _ = strconv.Atoi(c.Properties.GridSpan.Val)
				}
				if c.Properties.VMerge != nil {
					cv.VM = c.Properties.VMerge.Val
					if cv.VM == "" {
						cv.VM = "continue"
					}
					cv.VMRaw = "set:" + c.Properties.VMerge.Val
				}
			}
			if cv.VMRaw == "" {
				cv.VMRaw = "nil"
			}
			for _, p := range c.Paragraphs {
				a := 0
				if len(p.Runs) > 0 {
					a = atomRe(reT, p.Runs[0].Text.Content)
				}
				cv.Paras = append(cv.Paras, a)
			}
			row = append(row, cv)
		}
		v.Rows = append(v.Rows, row)
	}
	return v
}

func (v tableV) coq() string {
	g := "None"
	if !v.NoGrid {
		var xs []string
		for _, w := range v.Grid {
			xs = append(xs, fmt.Sprint(w))
		}
		g = "(Some [" + strings.Join(xs, ";") + "]%N)"
	}
	var rows []string
	for _, r := range v.Rows {
		var cs []string
		for _, c := range r {
			sp := "None"
			if c.Span != 0 {
				sp = fmt.Sprintf("(Some %d%%nat)", c.Span)
			}
			vm := map[string]string{"": "VNone", "restart": "VRestart", "continue": "VContinue"}[c.VM]
			if vm == "" {
				vm = "VRestart"
			}
			var ps []string
			for _, p := range c.Paras {
				ps = append(ps, fmt.Sprint(p))
			}
			cs = append(cs, fmt.Sprintf("mkCell %s %s [%s]%%N", sp, vm, strings.Join(ps, ";")))
		}
		rows = append(rows, cList(cs))
	}
	return fmt.Sprintf("(mkTable %s %s)", g, cList(rows))
}

func dataCoq(d []int) string {
	var xs []string
	for _, x := range d {
		xs = append(xs, fmt.Sprint(x))
	}
	return "[" + strings.Join(xs, ";") + "]%N"
}

func (o tblOp) coq() string {
	z := func(i int) string { return cZ(int64(o.A[i])) }
	switch o.Kind {
	case "InsertRow":
		return fmt.Sprintf("(InsertRow %s %s)", z(0), dataCoq(o.Data))
	case "DeleteRow":
		return fmt.Sprintf("(DeleteRow %s)", z(0))
	case "DeleteRows":
		return fmt.Sprintf("(DeleteRows %s %s)", z(0), z(1))
	case "InsertColumn":
		return fmt.Sprintf("(InsertColumn %s %s %d%%N)", z(0), dataCoq(o.Data), o.A[1])
	case "DeleteColumn":
		return fmt.Sprintf("(DeleteColumn %s)", z(0))
	case "DeleteColumns":
		return fmt.Sprintf("(DeleteColumns %s %s)", z(0), z(1))
	case "SetCellText":
		return fmt.Sprintf("(SetCellText %s %s %d%%N)", z(0), z(1), o.A[2])
	case "AddCellParagraph":
		return fmt.Sprintf("(AddCellParagraph %s %s %d%%N)", z(0), z(1), o.A[2])
	case "ClearCellParagraphs":
		return fmt.Sprintf("(ClearCellParagraphs %s %s)", z(0), z(1))
	case "ClearTable":
		return "ClearTable"
	case "MergeH":
		return fmt.Sprintf("(MergeH %s %s %s)", z(0), z(1), z(2))
	case "MergeV":
		return fmt.Sprintf("(MergeV %s %s %s)", z(0), z(1), z(2))
	case "MergeRange":
		return fmt.Sprintf("(MergeRange %s %s %s %s)", z(0), z(1), z(2), z(3))
	case "Unmerge":
		return fmt.Sprintf("(Unmerge %s %s)", z(0), z(1))
	}
	return "ClearTable"
}

func texts(d []int) []string {
	var out []string
	for _, x := range d {
		out = append(out, textOf(x))
	}
	return out
}

// applyTblOp: result class 0 ok, 1 error, 2 panic
func applyTblOp(t *document.Table, o tblOp) (res int) {
	defer func() {
		if p := recover(); p != nil {
			res = 2
		}
	}()
	var err error
	switch o.Kind {
	case "InsertRow":
		if o.Append {
			err = t.AppendRow(texts(o.Data))
		} else {
			err = t.InsertRow(o.A[0], texts(o.Data))
		}
	case "DeleteRow":
		err = t.DeleteRow(o.A[0])
	case "DeleteRows":
		err = t.DeleteRows(o.A[0], o.A[1])
	case "InsertColumn":
		if o.Append {
			err = t.AppendColumn(texts(o.Data), o.A[1])
		} else {
			err = t.InsertColumn(o.A[0], texts(o.Data), o.A[1])
		}
	case "DeleteColumn":
		err = t.DeleteColumn(o.A[0])
	case "DeleteColumns":
		err = t.DeleteColumns(o.A[0], o.A[1])
	case "SetCellText":
		err = t.SetCellText(o.A[0], o.A[1], textOf(o.A[2]))
	case "AddCellParagraph":
		_, err = t.AddCellParagraph(o.A[0], o.A[1], textOf(o.A[2]))
	case "ClearCellParagraphs":
		err = t.ClearCellParagraphs(o.A[0], o.A[1])
	case "ClearTable":
		t.ClearTable()
	case "MergeH":
		err = t.MergeCellsHorizontal(o.A[0], o.A[1], o.A[2])
	case "MergeV":
		err = t.MergeCellsVertical(o.A[0], o.A[1], o.A[2])
	case "MergeRange":
		err = t.MergeCellsRange(o.A[0], o.A[1], o.A[2], o.A[3])
	case "Unmerge":
		err = t.UnmergeCells(o.A[0], o.A[1])
	}
	if err != nil {
		return 1
	}
	return 0
}

// cellsPlainV: no merges, rows of equal length, every cell with a paragraph - whatever the grid says
func cellsPlainV(v tableV) bool {
	if len(v.Rows) == 0 {
		return false
	}
	for _, r := range v.Rows {
		if len(r) != len(v.Rows[0]) {
			return false
		}
		for _, c := range r {
			if c.Span != 0 || c.VM != "" || len(c.Paras) == 0 {
				return false
			}
		}
	}
	return true
}

func isPlainV(v tableV) bool {
	if v.NoGrid || len(v.Grid) == 0 || len(v.Rows) == 0 {
		return false
	}
	for _, r := range v.Rows {
		if len(r) != len(v.Grid) {
			return false
		}
		for _, c := range r {
			if c.Span != 0 || c.VM != "" || len(c.Paras) == 0 {
				return false
			}
		}
	}
	return true
}

// gridInvV: the well-formedness the property asks for
func gridInvV(v tableV) string {
	if v.NoGrid {
		return "no grid"
	}
	type pos struct {
		start, span int
		vm          string
	}
	var prev []pos
	for ri, r := range v.Rows {
		w := 0
		var cur []pos
		for ci, c := range r {
			s := c.Span
			if s == 0 {
				s = 1
			}
			if len(c.Paras) == 0 {
				return fmt.Sprintf("cell (%d,%d) has no paragraph", ri, ci)
			}
			cur = append(cur, pos{w, s, c.VM})
			if c.VM == "continue" {
				ok := false
				for _, p := range prev {
					if p.start == w && p.span == s && p.vm != "" {
						ok = true
					}
				}
				if !ok {
					return fmt.Sprintf("cell (%d,%d) continues a vertical merge but no matching start is above it", ri, ci)
				}
			}
			w += s
		}
		if w != len(v.Grid) {
			return fmt.Sprintf("row %d spans %d grid columns, the grid declares %d", ri, w, len(v.Grid))
		}
		prev = cur
	}
	return ""
}

// reference matrix semantics for plain tables (first-paragraph text atoms)
func plainExpect(m [][]int, o tblOp) (out [][]int, ok bool) {
	cp := func(m [][]int) [][]int {
		var n [][]int
		for _, r := range m {
			n = append(n, append([]int{}, r...))
		}
		return n
	}
	nr, nc := len(m), len(m[0])
	switch o.Kind {
	case "InsertRow":
		p := o.A[0]
		if p < 0 || p > nr || len(o.Data) > nc {
			return m, false
		}
		row := make([]int, nc)
		copy(row, o.Data)
		n := cp(m)
		n = append(n[:p], append([][]int{row}, n[p:]...)...)
		return n, true
	case "DeleteRow", "DeleteRows":
		a, b := o.A[0], o.A[0]
		if o.Kind == "DeleteRows" {
			b = o.A[1]
		}
		if a < 0 || b >= nr || a > b || nr-(b-a+1) < 1 {
			return m, false
		}
		n := cp(m)
		return append(n[:a], n[b+1:]...), true
	case "InsertColumn":
		p := o.A[0]
		if p < 0 || p > nc || len(o.Data) > nr {
			return m, false
		}
		n := cp(m)
		for i := range n {
			v := 0
			if i < len(o.Data) {
				v = o.Data[i]
			}
			n[i] = append(n[i][:p], append([]int{v}, n[i][p:]...)...)
		}
		return n, true
	case "DeleteColumn", "DeleteColumns":
		a, b := o.A[0], o.A[0]
		if o.Kind == "DeleteColumns" {
			b = o.A[1]
		}
		if a < 0 || b >= nc || a > b || nc-(b-a+1) < 1 {
			return m, false
		}
		n := cp(m)
		for i := range n {
			n[i] = append(n[i][:a], n[i][b+1:]...)
		}
		return n, true
	case "SetCellText":
		if o.A[0] < 0 || o.A[0] >= nr || o.A[1] < 0 || o.A[1] >= nc {
			return m, false
		}
		n := cp(m)
		n[o.A[0]][o.A[1]] = o.A[2]
		return n, true
	case "AddCellParagraph":
		if o.A[0] < 0 || o.A[0] >= nr || o.A[1] < 0 || o.A[1] >= nc {
			return m, false
		}
		return m, true
	case "ClearCellParagraphs":
		if o.A[0] < 0 || o.A[0] >= nr || o.A[1] < 0 || o.A[1] >= nc {
			return m, false
		}
		n := cp(m)
		n[o.A[0]][o.A[1]] = 0
		return n, true
	case "ClearTable":
		n := cp(m)
		for i := range n {
			for j := range n[i] {
				n[i][j] = 0
			}
		}
		return n, true
	}
	return m, true
}

func matrixOf(v tableV) [][]int {
	var m [][]int
	for _, r := range v.Rows {
		var row []int
		for _, c := range r {
			a := 0
			if len(c.Paras) > 0 {
				a = c.Paras[0]
			}
			row = append(row, a)
		}
		m = append(m, row)
	}
	return m
}

var structuralKinds = map[string]string{"InsertRow": "q_merged_table_insert_row", "DeleteRow": "q_merged_table_delete_row", "DeleteRows": "q_merged_table_delete_row",
	"InsertColumn": "q_merged_table_insert_column", "DeleteColumn": "q_merged_table_delete_column", "DeleteColumns": "q_merged_table_delete_column",
	"MergeH": "q_merged_table_merge_again", "MergeV": "q_merged_table_merge_again", "MergeRange": "q_merged_table_merge_again", "Unmerge": "q_merged_table_unmerge"}

type tblCase struct {
	Rows, Cols int
	Family     string
	Grid0      string // "": the grid AddTable gives; "none", "short", "long": as an opened document may hold the table
	GridN      int
	Bare       bool // at some point the continuation cells of a vertical merge were rewritten to the value-less form
	Ops        []tblOp
}

func genCellArgs(r *rng, nr, nc int, hostile bool) (int, int) {
	if hostile && r.chance(20) {
		return r.rangeI(-2, nr+1), r.rangeI(-2, nc+1)
	}
	return r.intn(nr), r.intn(nc)
}

func genPlainOp(r *rng, nr, nc int, atom *int) tblOp {
	next := func() int { *atom++; return *atom }
	data := func(n int) []int {
		var d []int
		for i := 0; i < n; i++ {
			d = append(d, next())
		}
		return d
	}
	switch r.pick([]int{12, 10, 6, 12, 10, 6, 18, 8, 6, 3}) {
	case 0:
		p := r.rangeI(-1, nr+1)
		if r.chance(20) {
			return tblOp{Kind: "InsertRow", A: []int{nr}, Append: true, Data: data(r.rangeI(0, nc+1))}
		}
		return tblOp{Kind: "InsertRow", A: []int{p}, Data: data(r.rangeI(0, nc+1))}
	case 1:
		return tblOp{Kind: "DeleteRow", A: []int{r.rangeI(-1, nr)}}
	case 2:
		a := r.rangeI(-1, nr)
		return tblOp{Kind: "DeleteRows", A: []int{a, a + r.rangeI(-1, 2)}}
	case 3:
		p := r.rangeI(-1, nc+1)
		if r.chance(20) {
			return tblOp{Kind: "InsertColumn", A: []int{nc, colWidth(r)}, Append: true, Data: data(r.rangeI(0, nr+1))}
		}
		return tblOp{Kind: "InsertColumn", A: []int{p, colWidth(r)}, Data: data(r.rangeI(0, nr+1))}
	case 4:
		return tblOp{Kind: "DeleteColumn", A: []int{r.rangeI(-1, nc)}}
	case 5:
		a := r.rangeI(-1, nc)
		return tblOp{Kind: "DeleteColumns", A: []int{a, a + r.rangeI(-1, 2)}}
	case 6:
		i, j := genCellArgs(r, nr, nc, true)
		return tblOp{Kind: "SetCellText", A: []int{i, j, next()}}
	case 7:
		i, j := genCellArgs(r, nr, nc, true)
		return tblOp{Kind: "AddCellParagraph", A: []int{i, j, next()}}
	case 8:
		i, j := genCellArgs(r, nr, nc, true)
		return tblOp{Kind: "ClearCellParagraphs", A: []int{i, j}}
	default:
		return tblOp{Kind: "ClearTable"}
	}
}

// runTblCase executes a case; the generator for the families B and C needs the live table, so ops
// are generated while running.
func runTblCase(r *rng, family string, nr, nc int, fixed ...tblOp) (c tblCase, coq string, fails []OracleFailure, nOK int) {
	doc := document.New()
	t, err := doc.AddTable(&document.TableConfig{Rows: nr, Cols: nc, Width: 1000 * nc})
	if err != nil {
		return c, "", []OracleFailure{{Clause: "create", Detail: err.Error()}}, 0
	}
	c = tblCase{Rows: nr, Cols: nc, Family: family}
	v0 := viewTable(t)
	grid0 := "None"
	if len(fixed) == 0 && r.chance(15) {
		// the table as an opened document may hold it: without a grid definition, or with one that is shorter or longer
		// than the rows (the column edits complete the grid first)
		switch r.intn(3) {
		case 0:
			c.Grid0 = "none"
			t.Grid = nil
			grid0 = "(Some None)"
		case 1:
			c.Grid0, c.GridN = "short", r.intn(nc)
			t.Grid.Cols = t.Grid.Cols[:c.GridN]
		default:
			c.Grid0, c.GridN = "long", nc+r.rangeI(1, 2)
			for len(t.Grid.Cols) < c.GridN {
				t.Grid.Cols = append(t.Grid.Cols, document.TableGridCol{W: "777"})
			}
		}
		// the widths of the columns that are added come from the cells' own widths, which the model does not carry:
		// the cells of these tables have none (the added columns then have width 0, as in the model)
		for ri := range t.Rows {
			for ci := range t.Rows[ri].Cells {
				if pr := t.Rows[ri].Cells[ci].Properties; pr != nil {
					pr.TableCellW = nil
				}
			}
		}
		if c.Grid0 != "none" {
			var gs []string
			for _, gc := range t.Grid.Cols {
				gs = append(gs, gc.W)
			}
			grid0 = "(Some (Some [" + strings.Join(gs, ";") + "]%N))"
		}
	}
	atom := 1
	var steps []string
	nOps := r.rangeI(3, 22)
	if len(fixed) > 0 {
		nOps = len(fixed)
	}
	mergedPhase := false
	for i := 0; i < nOps; i++ {
		if c.Grid0 != "" {
			// (the premise of these tables, kept up over the history: cells carry no width of their own - the calls give the
			// cells they create one, and a grid completed later would take its widths from them)
			for ri := range t.Rows {
				for ci := range t.Rows[ri].Cells {
					if pr := t.Rows[ri].Cells[ci].Properties; pr != nil {
						pr.TableCellW = nil
					}
				}
			}
		}
		before := viewTable(t)
		cnr := len(before.Rows)
		cnc := 0
		if cnr > 0 {
			cnc = len(before.Rows[0])
		}
		if cnr == 0 || cnc == 0 {
			break
		}
		var o tblOp
		plainBefore := isPlainV(before)
		fam := family
		if len(fixed) > 0 {
			o, fam = fixed[i], "fixed"
		}
		switch fam {
		case "fixed":
		case "plain":
			o = genPlainOp(r, cnr, cnc, &atom)
		case "merge":
			// merges only where the preconditions of the partial theorems hold, then cell-level calls and unmerge
			k := r.pick([]int{30, 25, 20, 25})
			switch {
			case k == 0 && plainBefore && cnc >= 2 && !mergedPhase:
				a := r.intn(cnc - 1)
				o = tblOp{Kind: "MergeH", A: []int{r.intn(cnr), a, a + 1 + r.intn(cnc-a-1)}}
				mergedPhase = true
			case k == 1 && plainBefore && cnr >= 2 && !mergedPhase:
				a := r.intn(cnr - 1)
				o = tblOp{Kind: "MergeV", A: []int{a, a + 1 + r.intn(cnr-a-1), r.intn(cnc)}}
				mergedPhase = true
			case k == 2 && plainBefore && cnr >= 2 && cnc >= 2 && !mergedPhase:
				a, b := r.intn(cnr-1), r.intn(cnc-1)
				o = tblOp{Kind: "MergeRange", A: []int{a, a + 1 + r.intn(cnr-a-1), b, b + 1 + r.intn(cnc-b-1)}}
				mergedPhase = true
			case k == 3 && mergedPhase:
				// unmerge a merge start, or any cell
				ri := r.intn(cnr)
				o = tblOp{Kind: "Unmerge", A: []int{ri, r.intn(len(before.Rows[ri]))}}
				for rr, row := range before.Rows {
					for cc, cell := range row {
						if (cell.Span != 0 || cell.VM == "restart") && r.chance(60) {
							o = tblOp{Kind: "Unmerge", A: []int{rr, cc}}
						}
					}
				}
				if isPlainV(applyPreview(t, o)) {
					mergedPhase = false
				}
			default:
				ri := r.intn(cnr)
				cj := r.intn(len(before.Rows[ri]))
				atom++
				o = []tblOp{{Kind: "SetCellText", A: []int{ri, cj, atom}}, {Kind: "AddCellParagraph", A: []int{ri, cj, atom}}, {Kind: "ClearCellParagraphs", A: []int{ri, cj}}}[r.intn(3)]
				if plainBefore && !mergedPhase && r.chance(40) {
					o = genPlainOp(r, cnr, cnc, &atom)
				}
			}
		default: // hostile: anything on anything
			hk := r.pick([]int{35, 17, 13, 35})
			var starts [][2]int
			for rr, row := range before.Rows {
				for cc, cell := range row {
					if cell.Span > 1 || cell.VM == "restart" {
						starts = append(starts, [2]int{rr, cc})
					}
				}
			}
			if hk == 1 {
				// a horizontal merge that fits the row it is applied to (so that several rows carry merges at once)
				ri := r.intn(cnr)
				if n := len(before.Rows[ri]); n >= 2 {
					a := r.intn(n - 1)
					o = tblOp{Kind: "MergeH", A: []int{ri, a, a + 1 + r.intn(n-a-1)}}
				} else {
					hk = 0
				}
			}
			if hk == 2 {
				if len(starts) > 0 {
					st := starts[r.intn(len(starts))]
					o = tblOp{Kind: "Unmerge", A: []int{st[0], st[1]}}
				} else {
					hk = 0
				}
			}
			if hk == 0 {
				o = genPlainOp(r, cnr, cnc, &atom)
			} else if hk == 3 {
				switch r.intn(4) {
				case 0:
					o = tblOp{Kind: "MergeH", A: []int{r.rangeI(-1, cnr), r.rangeI(-1, cnc), r.rangeI(-1, cnc+1)}}
				case 1:
					o = tblOp{Kind: "MergeV", A: []int{r.rangeI(-1, cnr), r.rangeI(-1, cnr+1), r.rangeI(-1, cnc)}}
				case 2:
					o = tblOp{Kind: "MergeRange", A: []int{r.rangeI(-1, cnr), r.rangeI(0, cnr), r.rangeI(-1, cnc), r.rangeI(0, cnc)}}
				default:
					o = tblOp{Kind: "Unmerge", A: []int{r.rangeI(-1, cnr), r.rangeI(-1, cnc)}}
				}
			}
		}
		res := applyTblOp(t, o)
		after := viewTable(t)
		// a vertical merge as Word writes it: the continuation cells carry <w:vMerge/> without a value
		if res == 0 && family != "plain" && (o.Kind == "MergeV" || o.Kind == "MergeRange") && r.chance(35) {
			for ri := range t.Rows {
				for ci := range t.Rows[ri].Cells {
					if pr := t.Rows[ri].Cells[ci].Properties; pr != nil && pr.VMerge != nil && pr.VMerge.Val == "continue" {
						pr.VMerge.Val = ""
						c.Bare = true
					}
				}
			}
		}
		// the reading calls (iterators, ranges, searches) on the table as it is now: they must not panic on any
		// table, and on a plain rows-by-columns table they visit every cell once, row by row
		if i%4 == 3 {
			// (its own random stream: the history itself is generated from r alone)
			if msg := readSweep(t, newRng(uint64(i)*7919+uint64(len(after.Rows))), isPlainV(after)); msg != "" {
				cl := "read_sweep"
				if strings.HasPrefix(msg, "panic") {
					cl = "no_panic"
				}
				kls := ""
				if !isPlainV(after) {
					kls = "read_on_merged_table"
				}
				fails = append(fails, OracleFailure{Clause: cl, Class: kls, Detail: fmt.Sprintf("after op %d %s%v: %s", i, o.Kind, o.A, msg)})
			}
		}
		c.Ops = append(c.Ops, o)
		steps = append(steps, fmt.Sprintf("(%s, mkObs %d %s)", o.coq(), res, after.coq()))
		if res == 0 {
			nOK++
		}
		// ---- oracle
		class := ""
		if !plainBefore && !cellsPlainV(before) {
			class = structuralKinds[o.Kind]
			if o.Kind == "Unmerge" {
				// recorded only for tables whose columns are no longer aligned (some row has a horizontal merge): the cells
				// under a vertical-merge start are then looked for at the physical index of the start
				for _, row := range before.Rows {
					for _, cell := range row {
						if cell.Span > 1 {
							class = "q_merged_table_unmerge_misaligned"
						}
					}
				}
			}
		}
		add := func(clause, detail string) {
			class := class
			if clause == "no_panic" && (o.Kind == "InsertColumn" || o.Kind == "DeleteColumn" || o.Kind == "DeleteColumns") {
				class = "column_edit_panic" // repaired: the column edits check every row first
			}
			fails = append(fails, OracleFailure{Clause: clause, Class: class, Detail: fmt.Sprintf("op %d %s%v on a %s table: %s", i, o.Kind, o.A, map[bool]string{true: "merge-free", false: "merged"}[plainBefore], detail)})
		}
		if res == 2 {
			add("no_panic", "the call panicked")
			break
		}
		if res == 1 && !reflect.DeepEqual(before, after) {
			cl := class
			if o.Kind == "MergeRange" {
				class = "q_range_merge_partial_failure"
			}
			add("error_unchanged", "the call failed but changed the table")
			class = cl
		}
		if res == 0 && gridInvV(before) == "" {
			if g := gridInvV(after); g != "" {
				add("grid_inv", g)
			}
		}
		if plainBefore {
			want, wantOK := plainExpect(matrixOf(before), o)
			switch o.Kind {
			case "MergeH", "MergeV", "MergeRange", "Unmerge":
			default:
				if wantOK != (res == 0) {
					add("result_spec", fmt.Sprintf("returned %v, the rows-by-columns model says ok=%v", res == 0, wantOK))
				} else if !reflect.DeepEqual(want, matrixOf(after)) {
					add("contents_frame", fmt.Sprintf("cells are %v, the rows-by-columns model gives %v", matrixOf(after), want))
				} else if res == 0 && !isPlainV(after) {
					add("stays_plain", "a merge-free table stopped being a plain grid")
				}
			}
		}
	}
	// copies share nothing with the original
	before := viewTable(t)
	bj, _ := json.Marshal(t)
	cp := t.CopyTable()
	if !reflect.DeepEqual(viewTable(cp), before) {
		fails = append(fails, OracleFailure{Clause: "copy_equal", Detail: "CopyTable differs from the original"})
	}
	scribble(reflect.ValueOf(cp), map[uintptr]bool{})
	if cnr := len(cp.Rows); cnr > 0 && len(cp.Rows[0].Cells) >= 2 {
		cp.MergeCellsHorizontal(0, 0, 1)
	}
	aj, _ := json.Marshal(t)
	if string(bj) != string(aj) {
		fails = append(fails, OracleFailure{Clause: "copy_independent", Detail: "writing through the copy changed the original table"})
	}
	var ws []string
	for _, w := range v0.Grid {
		ws = append(ws, fmt.Sprint(w))
	}
	coq = fmt.Sprintf("(mkCase %d %d [%s]%%N %s %s)", nr, nc, strings.Join(ws, ";"), grid0, cList(steps))
	return
}

// applyPreview: what the table would look like after the op (on a copy)
func applyPreview(t *document.Table, o tblOp) tableV {
	cp := t.CopyTable()
	applyTblOp(cp, o)
	return viewTable(cp)
}

func runC09(cfg *runCfg) error {
	res := newResult("C09", cfg.seed)
	r := newRng(cfg.seed + 909)
	dist := newDistinct()
	res.Rule = "histories of 3-22 table calls on tables of 1x1 to 6x6, three families: merge-free (row/column insert/append/delete(s), cell text/paragraph calls, clear; positions inside, at and beyond the bounds), merges under the preconditions of the partial theorems followed by cell-level calls and unmerge, and hostile (any call incl. merges with any arguments on any table); after every call the table is projected (grid, per cell span / vMerge / paragraph atoms) and compared with the model; CopyTable is scribbled over at the end; non-trivial = at least 3 successful calls; distinct by hash of the case"
	var coqCases []string
	perClass := map[string]int{}
	// the corpus runs first: the witness of every recorded finding (known_findings.json), so that each run says
	// whether it still fails
	witnesses := [][]tblOp{
		{{Kind: "MergeH", A: []int{0, 0, 1}}, {Kind: "InsertRow", A: []int{1}}},
		{{Kind: "MergeV", A: []int{0, 2, 1}}, {Kind: "DeleteRow", A: []int{0}}},
		// (rows 0 and 1 keep the same number of cells, so the column edit is not refused; the vertical chain in grid
		// column 2 stands at different positions in the two rows)
		{{Kind: "MergeV", A: []int{0, 1, 2}}, {Kind: "MergeH", A: []int{0, 0, 1}}, {Kind: "MergeH", A: []int{1, 3, 4}}, {Kind: "MergeH", A: []int{2, 3, 4}}, {Kind: "InsertColumn", A: []int{2, 1000}}},
		{{Kind: "MergeH", A: []int{1, 0, 1}}, {Kind: "DeleteColumn", A: []int{2}}},
		{{Kind: "MergeH", A: []int{0, 0, 1}}, {Kind: "MergeV", A: []int{0, 1, 1}}},
		{{Kind: "MergeV", A: []int{0, 2, 2}}, {Kind: "MergeH", A: []int{0, 0, 1}}, {Kind: "Unmerge", A: []int{0, 1}}},
	}
	for ci := 0; ci < cfg.n+len(witnesses); ci++ {
		var c tblCase
		var coq string
		var fails []OracleFailure
		var nOK int
		family := "hostile"
		if ci < len(witnesses) {
			wr, wc := 3, 3
			if len(witnesses[ci]) > 2 {
				wr, wc = 3, 5
			}
			c, coq, fails, nOK = runTblCase(newRng(1), family, wr, wc, witnesses[ci]...)
			res.Histogram["corpus: witness of a recorded finding"]++
		} else {
			cr := r.fork()
			family = []string{"plain", "plain", "merge", "hostile"}[cr.intn(4)]
			c, coq, fails, nOK = runTblCase(cr, family, cr.rangeI(1, 6), cr.rangeI(1, 6))
		}
		res.Evaluations++
		res.Histogram["family:"+family]++
		for _, o := range c.Ops {
			res.Histogram[o.Kind]++
		}
		if nOK >= 3 {
			dist.add(c)
		}
		for _, f := range fails {
			f.Case, f.CaseID = c, ci
			perClass[f.Clause+"/"+f.Class]++
			if perClass[f.Clause+"/"+f.Class] <= 4 {
				res.OracleFailures = append(res.OracleFailures, f)
			}
		}
		if coq != "" {
			coqCases = append(coqCases, coq)
		}
		res.Cases = append(res.Cases, c)
		if len(res.Samples) < 3 && nOK >= 5 {
			res.Samples = append(res.Samples, c)
		}
	}
	res.DistinctNontrivial = dist.n()
	res.Extra["failures_per_class"] = perClass
	res.Shards = writeShards(cfg.out, "c09cases", "From Coq Require Import ZArith NArith List.\nFrom WZ Require Import Model.Table Corr.TableCorr.", "case", "mismatches", coqCases, 60)
	res.write(cfg.out)
	return nil
}

// readSweep: ForEach / ForEachInRow / ForEachInColumn / the cell iterator / GetCellRange / FindCellsByText
func readSweep(t *document.Table, r *rng, plain bool) (msg string) {
	defer func() {
		if e := recover(); e != nil {
			msg = fmt.Sprintf("panic in a reading call: %v", e)
		}
	}()
	nr, nc := t.GetRowCount(), t.GetColumnCount()
	var order [][2]int
	_ = t.ForEach(func(row, col int, cell *document.TableCell, text string) error {
		order = append(order, [2]int{row, col})
		return nil
	})
	if plain {
		k := 0
		for i := 0; i < nr; i++ {
			for j := 0; j < nc; j++ {
				if k >= len(order) || order[k] != [2]int{i, j} {
					return fmt.Sprintf("ForEach visits %v on a %dx%d table", order, nr, nc)
				}
				k++
			}
		}
		if k != len(order) {
			return fmt.Sprintf("ForEach visits %d cells of a %dx%d table", len(order), nr, nc)
		}
	}
	for _, ri := range []int{-1, 0, r.intn(nr + 1), nr} {
		seen := 0
		err := t.ForEachInRow(ri, func(col int, cell *document.TableCell, text string) error { seen++; return nil })
		if plain && ri >= 0 && ri < nr && (err != nil || seen != nc) {
			return fmt.Sprintf("ForEachInRow(%d) visits %d cells of %d (err %v)", ri, seen, nc, err)
		}
		if (ri < 0 || ri >= nr) && err == nil {
			return fmt.Sprintf("ForEachInRow(%d) on a table of %d rows reports no error", ri, nr)
		}
	}
	for _, cj := range []int{-1, 0, r.intn(nc + 1), nc} {
		seen := 0
		err := t.ForEachInColumn(cj, func(row int, cell *document.TableCell, text string) error { seen++; return nil })
		if plain && cj >= 0 && cj < nc && (err != nil || seen != nr) {
			return fmt.Sprintf("ForEachInColumn(%d) visits %d cells of %d (err %v)", cj, seen, nr, err)
		}
	}
	it := t.NewCellIterator()
	n := 0
	for it.HasNext() && n < 10000 {
		if _, err := it.Next(); err != nil {
			break
		}
		_, _ = it.Current()
		_ = it.Progress()
		n++
	}
	if plain && n != nr*nc {
		return fmt.Sprintf("the cell iterator yields %d cells of a %dx%d table (Total() = %d)", n, nr, nc, it.Total())
	}
	it.Reset()
	if nr > 0 && nc > 0 {
		a, b := r.intn(nr), r.intn(nc)
		cells, err := t.GetCellRange(a, b, nr-1, nc-1)
		if plain && (err != nil || len(cells) != (nr-a)*(nc-b)) {
			return fmt.Sprintf("GetCellRange(%d,%d,%d,%d) gives %d cells (err %v)", a, b, nr-1, nc-1, len(cells), err)
		}
	}
	_, _ = t.GetCellRange(-1, 0, nr, nc)
	_, _ = t.FindCellsByText("T1", false)
	return ""
}

// colWidth: the width handed to a column insertion - now and then 0 (legal: the column is as wide as the grid says)
func colWidth(r *rng) int {
	if r.chance(15) {
		return 0
	}
	return 1000 + r.intn(2000)
}
