package main

// C16: text templates render according to the documented substitution semantics.
//
// Templates are generated as syntax trees from the documented grammar and printed; the data are generated to fit
// (and, in the dirty stream, to contain directive-like text).  The oracle is a reference interpreter over the tree
// (refRender); the correspondence check hands template text and data to the Coq model of the engine's pass pipeline
// (Model/Template.v) and compares the rendered text.

import (
	"bytes"
	"fmt"
	"io"
	"os"
	"path/filepath"
	"sort"
	"strconv"
	"strings"

	"github.com/zerx-lab/wordZero/pkg/document"
)

func init() { props["C16"] = runC16 }

type tnode struct {
	kind    string // lit var this index first last if each
	s       string // literal text, variable / condition / list name
	th, el  []*tnode
	hasElse bool
	body    []*tnode
}

// scalar values keep the Go value (for truthiness and formatting)
type titem struct {
	isMap  bool
	scalar interface{}            // for non-map items
	fields map[string]interface{} // scalars or []*titem
	order  []string
}

type tdata struct {
	vars  map[string]interface{}
	conds map[string]bool
	lists map[string][]*titem
}

func printNodes(ns []*tnode, b *strings.Builder) {
	for _, n := range ns {
		switch n.kind {
		case "lit":
			b.WriteString(n.s)
		case "var":
			b.WriteString("{{" + n.s + "}}")
		case "this":
			b.WriteString("{{this}}")
		case "index":
			b.WriteString("{{@index}}")
		case "first":
			b.WriteString("{{@first}}")
		case "last":
			b.WriteString("{{@last}}")
		case "if":
			b.WriteString("{{#if " + n.s + "}}")
			printNodes(n.th, b)
			if n.hasElse {
				b.WriteString("{{else}}")
				printNodes(n.el, b)
			}
			b.WriteString("{{/if}}")
		case "each":
			b.WriteString("{{#each " + n.s + "}}")
			printNodes(n.body, b)
			b.WriteString("{{/each}}")
		}
	}
}

func scalarText(v interface{}) string {
	if v == nil {
		return ""
	}
	switch x := v.(type) {
	case string:
		return x
	case int:
		return strconv.Itoa(x)
	case int64:
		return strconv.FormatInt(x, 10)
	case float64:
		return strconv.FormatFloat(x, 'f', -1, 64)
	case bool:
		return strconv.FormatBool(x)
	}
	return fmt.Sprintf("%v", v)
}

func scalarTruthy(v interface{}) bool {
	switch x := v.(type) {
	case bool:
		return x
	case string:
		return x != ""
	case int:
		return x != 0
	case int64:
		return x != 0
	case float64:
		return x != 0
	}
	return v != nil
}

// refRender: the documented semantics.  scope holds the items of the enclosing loops, innermost last; idx and n
// belong to the innermost loop.
//
//	variable      the field of the innermost enclosing map item that has it (a list-valued field does not count),
//	              else the global variable, else the placeholder stays
//	condition     inside a loop whose items are maps: the field of the innermost map item (absent = false, a list
//	              counts as true); otherwise the global condition (absent = false)
//	each          at the top level the global list; inside a loop the list-valued field of the current item;
//	              anything else renders nothing
func refRender(ns []*tnode, d *tdata, scope []*titem, idx, n int, b *strings.Builder) {
	var item *titem
	if len(scope) > 0 {
		item = scope[len(scope)-1]
	}
	var innerMap *titem
	for i := len(scope) - 1; i >= 0; i-- {
		if scope[i].isMap {
			innerMap = scope[i]
			break
		}
	}
	for _, nd := range ns {
		switch nd.kind {
		case "lit":
			b.WriteString(nd.s)
		case "var":
			done := false
			for i := len(scope) - 1; i >= 0 && !done; i-- {
				if scope[i].isMap {
					if v, ok := scope[i].fields[nd.s]; ok {
						if _, isList := v.([]*titem); !isList {
							b.WriteString(scalarText(v))
							done = true
						}
					}
				}
			}
			if done {
				continue
			}
			if v, ok := d.vars[nd.s]; ok {
				b.WriteString(scalarText(v))
			} else {
				b.WriteString("{{" + nd.s + "}}")
			}
		case "this":
			if item != nil {
				b.WriteString(scalarText(item.scalar))
			} else {
				b.WriteString("{{this}}")
			}
		case "index":
			b.WriteString(strconv.Itoa(idx))
		case "first":
			b.WriteString(strconv.FormatBool(idx == 0))
		case "last":
			b.WriteString(strconv.FormatBool(idx == n-1))
		case "if":
			cond := false
			if innerMap != nil {
				if v, ok := innerMap.fields[nd.s]; ok {
					if _, isList := v.([]*titem); isList {
						cond = true
					} else {
						cond = scalarTruthy(v)
					}
				}
			} else {
				cond = d.conds[nd.s]
			}
			if cond {
				refRender(nd.th, d, scope, idx, n, b)
			} else if nd.hasElse {
				refRender(nd.el, d, scope, idx, n, b)
			}
		case "each":
			var items []*titem
			if item != nil {
				if item.isMap {
					if v, ok := item.fields[nd.s]; ok {
						if l, isList := v.([]*titem); isList {
							items = l
						}
					}
				}
			} else {
				items = d.lists[nd.s]
			}
			for i, it := range items {
				refRender(nd.body, d, append(append([]*titem(nil), scope...), it), i, len(items), b)
			}
		}
	}
}

// ---- generators -------------------------------------------------------------------------------------------

var tplLits = []string{"a", " b ", "text", "\n", "line\n", "  ", "x{y}z", "}", "{", "} }", "1 < 2 & 3", "é中", "-", "", ": ", "{ {", "\n\n"}
var dirtyVals = []string{"{{name}}", "{{#if c0}}X{{/if}}", "{{else}}", "{{/if}}", "{{#each l0}}Y{{/each}}", "{{/each}}", "{{this}}", "{{@index}}", "}}", "{{", "{{v1}}", "{{f0}}"}

type tgen struct {
	r     *rng
	dirty bool
	feats map[string]int
}

func (g *tgen) lit() *tnode { return &tnode{kind: "lit", s: tplLits[g.r.intn(len(tplLits))]} }

func (g *tgen) val() interface{} { return g.valAt(false) }

// inItem: the value of an item field.  A field value that is itself the placeholder of a sibling field would make
// the engine's result depend on the iteration order of a Go map; such values are left to the global variables.
func (g *tgen) valAt(inItem bool) interface{} {
	r := g.r
	if g.dirty && r.chance(35) {
		g.feats["value with directive-like text"]++
		v := dirtyVals[r.intn(len(dirtyVals))]
		if inItem && (v == "{{f0}}" || v == "{{this}}") {
			v = "{{v1}}"
		}
		return v
	}
	switch r.intn(8) {
	case 0:
		return r.intn(100)
	case 1:
		return r.chance(50)
	case 2:
		return ""
	case 3:
		// numbers of the other Go types data may carry (a float32 that is no dyadic fraction prints with the digits
		// of a float32, not of the float64 it widens to)
		switch r.intn(5) {
		case 0:
			return float32(r.intn(2000)) / 100
		case 1:
			return int64(r.intn(1000)) - 500
		case 2:
			return uint16(r.intn(70000) % 65536)
		case 3:
			return int32(-r.intn(50))
		}
		return float64(r.intn(50)) / 4
	case 4:
		return []string{"x y", " lead", "trail ", "multi\nline", "<&>", "{single}"}[r.intn(6)]
	case 5:
		return 0
	}
	return fmt.Sprintf("v%d", r.intn(50))
}

// flat content of a conditional branch: no directive other than variables (and loop specials inside loops)
func (g *tgen) flat(inLoop bool, mapItems bool) []*tnode {
	var out []*tnode
	for i, n := 0, g.r.intn(3); i < n; i++ {
		switch g.r.intn(5) {
		case 0, 1:
			out = append(out, g.lit())
		case 2:
			if inLoop && mapItems {
				out = append(out, &tnode{kind: "var", s: fmt.Sprintf("f%d", g.r.intn(4))})
			} else {
				out = append(out, &tnode{kind: "var", s: fmt.Sprintf("v%d", g.r.intn(5))})
			}
		case 3:
			if inLoop {
				out = append(out, &tnode{kind: []string{"index", "first", "last"}[g.r.intn(3)]})
			} else {
				out = append(out, g.lit())
			}
		case 4:
			if inLoop && !mapItems {
				out = append(out, &tnode{kind: "this"})
			} else {
				out = append(out, g.lit())
			}
		}
	}
	return out
}

func (g *tgen) body(depth int, mapItems bool) []*tnode {
	var out []*tnode
	for i, n := 0, g.r.rangeI(1, 4); i < n; i++ {
		switch g.r.pick([]int{30, 25, 15, 15, 15}) {
		case 0:
			out = append(out, g.lit())
		case 1:
			if mapItems {
				out = append(out, &tnode{kind: "var", s: fmt.Sprintf("f%d", g.r.intn(4))})
			} else {
				out = append(out, &tnode{kind: "this"})
			}
		case 2:
			out = append(out, &tnode{kind: []string{"index", "first", "last"}[g.r.intn(3)]})
		case 3:
			nd := &tnode{kind: "if", th: g.flat(true, mapItems), hasElse: g.r.chance(50)}
			if mapItems {
				nd.s = fmt.Sprintf("f%d", g.r.intn(5))
			} else {
				nd.s = fmt.Sprintf("c%d", g.r.intn(4))
			}
			if nd.hasElse {
				nd.el = g.flat(true, mapItems)
			}
			g.feats["conditional inside a loop"]++
			out = append(out, nd)
		case 4:
			if mapItems && depth < 2 {
				g.feats["nested loop"]++
				sub := fmt.Sprintf("s%d", g.r.intn(2))
				out = append(out, &tnode{kind: "each", s: sub, body: g.body(depth+1, g.subIsMap(sub))})
			} else {
				out = append(out, g.lit())
			}
		}
	}
	return out
}

// list naming convention: l0,l1 hold maps, l2 holds strings; s0 holds maps, s1 holds strings
func (g *tgen) subIsMap(name string) bool { return name == "s0" || name == "l0" || name == "l1" }

func (g *tgen) top() []*tnode {
	var out []*tnode
	for i, n := 0, g.r.rangeI(1, 6); i < n; i++ {
		switch g.r.pick([]int{30, 25, 20, 25}) {
		case 0:
			out = append(out, g.lit())
		case 1:
			out = append(out, &tnode{kind: "var", s: fmt.Sprintf("v%d", g.r.intn(5))})
		case 2:
			nd := &tnode{kind: "if", s: fmt.Sprintf("c%d", g.r.intn(4)), th: g.flat(false, false), hasElse: g.r.chance(50)}
			if nd.hasElse {
				nd.el = g.flat(false, false)
				g.feats["if-else"]++
			} else {
				g.feats["if"]++
			}
			out = append(out, nd)
		case 3:
			l := fmt.Sprintf("l%d", g.r.intn(4)) // l3 is never defined
			g.feats["loop"]++
			out = append(out, &tnode{kind: "each", s: l, body: g.body(0, g.subIsMap(l))})
		}
	}
	return out
}

func (g *tgen) item(isMap bool, depth int) *titem {
	r := g.r
	if !isMap {
		return &titem{scalar: g.valAt(true)}
	}
	it := &titem{isMap: true, fields: map[string]interface{}{}}
	for k := 0; k < 5; k++ {
		if r.chance(70) {
			name := fmt.Sprintf("f%d", k)
			it.fields[name] = g.valAt(true)
			it.order = append(it.order, name)
		}
	}
	if depth < 2 {
		for _, sub := range []string{"s0", "s1"} {
			switch r.intn(4) {
			case 0: // missing
				g.feats["item without the nested list"]++
			case 1:
				it.fields[sub] = []*titem{}
				it.order = append(it.order, sub)
				g.feats["empty nested list"]++
			default:
				var l []*titem
				for i, n := 0, r.rangeI(1, 3); i < n; i++ {
					l = append(l, g.item(g.subIsMap(sub), depth+1))
				}
				it.fields[sub] = l
				it.order = append(it.order, sub)
			}
		}
	}
	return it
}

func (g *tgen) data() *tdata {
	r := g.r
	d := &tdata{vars: map[string]interface{}{}, conds: map[string]bool{}, lists: map[string][]*titem{}}
	for k := 0; k < 5; k++ {
		if r.chance(75) {
			d.vars[fmt.Sprintf("v%d", k)] = g.val()
		}
	}
	for k := 0; k < 4; k++ {
		if r.chance(70) {
			d.conds[fmt.Sprintf("c%d", k)] = r.chance(50)
		}
	}
	for k, name := range []string{"l0", "l1", "l2"} {
		if r.chance(85) {
			var l []*titem
			for i, n := 0, r.intn(4); i < n; i++ {
				l = append(l, g.item(k < 2, 0))
			}
			if len(l) == 0 {
				g.feats["empty list"]++
				l = []*titem{}
			}
			d.lists[name] = l
		}
	}
	return d
}

func itemToGo(it *titem) interface{} {
	if !it.isMap {
		return it.scalar
	}
	m := map[string]interface{}{}
	for k, v := range it.fields {
		if l, ok := v.([]*titem); ok {
			gl := make([]interface{}, 0, len(l))
			for _, x := range l {
				gl = append(gl, itemToGo(x))
			}
			m[k] = gl
		} else {
			m[k] = v
		}
	}
	return m
}

// toGo builds the library's data object; the variables go in one by one, all at once (SetVariables), or by way of a
// second data object that is merged in (Merge) - the same data whichever way
func (d *tdata) toGo() *document.TemplateData {
	td := document.NewTemplateData()
	switch (len(d.vars) + len(d.lists)) % 3 { // (no shared counter: data objects are built from several goroutines)
	case 0:
		for k, v := range d.vars {
			td.SetVariable(k, v)
		}
	case 1:
		m := map[string]interface{}{}
		for k, v := range d.vars {
			m[k] = v
		}
		td.SetVariables(m)
	default:
		other := document.NewTemplateData()
		other.SetVariable("stale", "overwritten")
		td.SetVariable("stale", "x")
		for k, v := range d.vars {
			other.SetVariable(k, v)
		}
		td.Merge(other)
		delete(td.Variables, "stale")
	}
	for k, v := range d.conds {
		td.SetCondition(k, v)
	}
	for k, l := range d.lists {
		gl := make([]interface{}, 0, len(l))
		for _, it := range l {
			gl = append(gl, itemToGo(it))
		}
		td.SetList(k, gl)
	}
	return td
}

// expected paragraph texts for a rendered text (applyRenderedContentToDocument: one paragraph per line, nothing
// for a text that is blank altogether)
func linesOf(s string) []string {
	if strings.TrimSpace(s) == "" {
		return nil
	}
	return strings.Split(s, "\n")
}

func docParagraphTexts(d *document.Document) []string {
	var out []string
	for _, e := range d.Body.Elements {
		if p, ok := e.(*document.Paragraph); ok {
			var b strings.Builder
			for _, r := range p.Runs {
				b.WriteString(r.Text.Content)
			}
			out = append(out, b.String())
		}
	}
	return out
}

func isDirty(d *tdata) bool {
	dirty := false
	var chk func(v interface{})
	chk = func(v interface{}) {
		switch x := v.(type) {
		case string:
			if strings.Contains(x, "{{") || strings.Contains(x, "}}") {
				dirty = true
			}
		case []*titem:
			for _, it := range x {
				chk(it.scalar)
				for _, f := range it.fields {
					chk(f)
				}
			}
		}
	}
	for _, v := range d.vars {
		chk(v)
	}
	for _, l := range d.lists {
		chk(l)
	}
	return dirty
}

// ---- Coq notation -------------------------------------------------------------------------------------------

func itemCoq(it *titem) string {
	if !it.isMap {
		return fmt.Sprintf("IStr %s %s", cStrRaw(scalarText(it.scalar)), cBool(scalarTruthy(it.scalar)))
	}
	var fs []string
	keys := append([]string(nil), it.order...)
	sort.Strings(keys)
	for _, k := range keys {
		v := it.fields[k]
		if l, ok := v.([]*titem); ok {
			var xs []string
			for _, x := range l {
				xs = append(xs, "("+itemCoq(x)+")")
			}
			fs = append(fs, fmt.Sprintf("(%s, FList [%s])", cStrRaw(k), strings.Join(xs, "; ")))
		} else {
			fs = append(fs, fmt.Sprintf("(%s, FScalar %s %s)", cStrRaw(k), cStrRaw(scalarText(v)), cBool(scalarTruthy(v))))
		}
	}
	return "IMap [" + strings.Join(fs, "; ") + "]"
}

func (d *tdata) coq() string {
	var vs, cs, ls []string
	var keys []string
	for k := range d.vars {
		keys = append(keys, k)
	}
	sort.Strings(keys)
	for _, k := range keys {
		vs = append(vs, fmt.Sprintf("(%s, %s)", cStrRaw(k), cStrRaw(scalarText(d.vars[k]))))
	}
	keys = nil
	for k := range d.conds {
		keys = append(keys, k)
	}
	sort.Strings(keys)
	for _, k := range keys {
		cs = append(cs, fmt.Sprintf("(%s, %s)", cStrRaw(k), cBool(d.conds[k])))
	}
	keys = nil
	for k := range d.lists {
		keys = append(keys, k)
	}
	sort.Strings(keys)
	for _, k := range keys {
		var xs []string
		for _, it := range d.lists[k] {
			xs = append(xs, "("+itemCoq(it)+")")
		}
		ls = append(ls, fmt.Sprintf("(%s, [%s])", cStrRaw(k), strings.Join(xs, "; ")))
	}
	return fmt.Sprintf("mkEnv [%s] [%s] [%s]", strings.Join(vs, "; "), strings.Join(cs, "; "), strings.Join(ls, "; "))
}

func nodesCoq(ns []*tnode) string {
	var xs []string
	for _, n := range ns {
		switch n.kind {
		case "lit":
			xs = append(xs, "NLit "+cStrRaw(n.s))
		case "var":
			xs = append(xs, "NVar "+cStrRaw(n.s))
		case "this":
			xs = append(xs, "NThis")
		case "index":
			xs = append(xs, "NIndex")
		case "first":
			xs = append(xs, "NFirst")
		case "last":
			xs = append(xs, "NLast")
		case "if":
			el := "None"
			if n.hasElse {
				el = "(Some " + nodesCoq(n.el) + ")"
			}
			xs = append(xs, fmt.Sprintf("NIf %s %s %s", cStrRaw(n.s), nodesCoq(n.th), el))
		case "each":
			xs = append(xs, fmt.Sprintf("NEach %s %s", cStrRaw(n.s), nodesCoq(n.body)))
		}
	}
	return "[" + strings.Join(xs, "; ") + "]"
}

func runC16(cfg *runCfg) error {
	res := newResult("C16", cfg.seed)
	r := newRng(cfg.seed + 1616)
	feats := map[string]int{}
	dist := newDistinct()
	failCount := map[string]int{}
	var cases []string
	for ci := 0; ci < cfg.n; ci++ {
		g := &tgen{r: r.fork(), dirty: ci%5 == 4, feats: feats}
		ast := g.top()
		d := g.data()
		var tb strings.Builder
		printNodes(ast, &tb)
		tpl := tb.String()
		if litsFormBraces(ast) {
			// adjacent literal pieces would spell "{{" or "}}": the text would not be the text of this tree
			feats["skipped: literals spelling double braces"]++
			continue
		}
		var rb strings.Builder
		refRender(ast, d, nil, 0, 0, &rb)
		want := linesOf(rb.String())
		te := document.NewTemplateEngine()
		res.Evaluations++
		dist.add(tpl + "|" + d.coq())
		if _, err := te.LoadTemplate("t", tpl); err != nil {
			res.OracleFailures = append(res.OracleFailures, OracleFailure{Clause: "loads", Class: "load_error", Detail: err.Error(), CaseID: ci})
			continue
		}
		doc, err := te.RenderToDocument("t", d.toGo())
		if err != nil {
			res.OracleFailures = append(res.OracleFailures, OracleFailure{Clause: "renders", Class: "render_error", Detail: err.Error(), CaseID: ci})
			continue
		}
		got := docParagraphTexts(doc)
		if ci%3 == 0 {
			// the rendered document as a file: what is read back from its saved bytes is the same text, blanks included
			if data, e := doc.ToBytes(); e == nil {
				if back, e := document.OpenFromMemory(io.NopCloser(bytes.NewReader(data))); e == nil && back != nil {
					if again := docParagraphTexts(back); strings.Join(again, "\n") != strings.Join(got, "\n") {
						failCount["saved_text"]++
						if failCount["saved_text"] <= 4 {
							res.OracleFailures = append(res.OracleFailures, OracleFailure{Clause: "rendered_text_saved", Class: "saved_text_differs",
								Detail: fmt.Sprintf("template %q with %s renders %q; saved and opened again the document shows %q", tpl, d.coq(), strings.Join(got, "\n"), strings.Join(again, "\n")), CaseID: ci})
						}
					}
					feats["rendered document saved and read back"]++
				}
			}
		}
		dirty := isDirty(d)
		if dirty {
			feats["case with directive-like values"]++
		} else {
			feats["case with plain values"]++
		}
		if strings.Join(got, "\n") != strings.Join(want, "\n") || len(got) != len(want) {
			class := "render_differs"
			if dirty {
				class = "q_value_reinterpreted"
			}
			failCount[class]++
			if failCount[class] <= 6 {
				res.OracleFailures = append(res.OracleFailures, OracleFailure{Clause: "rendered_text", Class: class,
					Detail: fmt.Sprintf("template %q with %s renders %q, the documented semantics give %q", tpl, d.coq(), strings.Join(got, "\n"), strings.Join(want, "\n")), CaseID: ci,
					Case: map[string]interface{}{"template": tpl, "data": d.coq(), "got": got, "want": want}})
			}
		}
		cases = append(cases, fmt.Sprintf("mkCase %s\n  %s\n  (%s)\n  %s", cStrRaw(tpl), nodesCoq(ast), d.coq(), cStrRaw(strings.Join(got, "\n"))))
	}
	res.DistinctNontrivial = dist.n()
	res.Histogram = feats
	res.Shards = writeShardsPlain(cfg.out, "c16cases", "From Coq Require Import String List Bool.\nFrom WZ Require Import Model.Template Corr.TemplateCorr.\nImport ListNotations.\nOpen Scope string_scope.\n", "case", "mismatches", cases, 50)
	// the number of cases that meet the premises of the theorem is computed by Coq as well
	tplShards := res.Shards
	// ---- blocks with inheritance: a chain of templates, each extending the one before; the leaf is rendered.
	// Reference: the text of the root with every block replaced by the nearest override on the way from the leaf to
	// the root (else its default), rendered by the reference interpreter.  Model: Model/Engine.v (Corr/EngineCorr.v).
	var inhCases []string
	for ci := 0; ci < cfg.n/5; ci++ {
		g := &tgen{r: r.fork(), feats: map[string]int{}}
		depth := g.r.rangeI(1, 4) // number of derived templates
		type seg struct {
			block string
			nodes []*tnode
		}
		var segs []seg
		names := []string{"a", "b", "c"}
		g.r.shuffle(len(names), func(i, j int) { names[i], names[j] = names[j], names[i] })
		nb := g.r.rangeI(1, 3)
		for i := 0; i < nb; i++ {
			segs = append(segs, seg{"", g.flat(false, false)})
			segs = append(segs, seg{names[i], append([]*tnode{{kind: "lit", s: "D" + names[i]}}, g.flat(false, false)...)})
		}
		if g.r.chance(60) {
			segs = append(segs, seg{"", g.top()})
		}
		var root strings.Builder
		for _, sg := range segs {
			if sg.block == "" {
				printNodes(sg.nodes, &root)
			} else {
				root.WriteString("{{#block \"" + sg.block + "\"}}")
				printNodes(sg.nodes, &root)
				root.WriteString("{{/block}}")
			}
		}
		ops := []engOp{{Kind: "load", Name: "t0", Content: root.String()}}
		overrides := make([]map[string][]*tnode, depth+1)
		for lvl := 1; lvl <= depth; lvl++ {
			overrides[lvl] = map[string][]*tnode{}
			var b strings.Builder
			b.WriteString(fmt.Sprintf("{{extends \"t%d\"}}", lvl-1))
			for _, bn := range []string{"a", "b", "c", "zz"} {
				if g.r.chance(50) {
					ns := append([]*tnode{{kind: "lit", s: fmt.Sprintf("O%d%s", lvl, bn)}}, g.flat(false, false)...)
					if g.r.chance(15) {
						ns = []*tnode{} // an override that blanks the block out
						feats["inheritance: empty override"]++
					}
					overrides[lvl][bn] = ns
					b.WriteString("\n{{#block \"" + bn + "\"}}")
					printNodes(ns, &b)
					b.WriteString("{{/block}}")
				}
			}
			ops = append(ops, engOp{Kind: "load", Name: fmt.Sprintf("t%d", lvl), Content: b.String()})
		}
		bad := false
		for _, o := range ops {
			if strings.Contains(o.Content, "\"") && strings.Count(o.Content, "\"") != 2*strings.Count(o.Content, "{{#block")+2*strings.Count(o.Content, "{{extends") {
				bad = true // a literal with a quotation mark: the directives' own quotes are the only ones allowed
			}
		}
		if bad {
			feats["inheritance: skipped (quotation mark in a literal)"]++
			continue
		}
		d := g.data()
		leaf := fmt.Sprintf("t%d", g.r.rangeI(0, depth))
		leafLvl := 0
		fmt.Sscanf(leaf, "t%d", &leafLvl)
		var eff []*tnode
		overridden := 0
		for _, sg := range segs {
			ns := sg.nodes
			if sg.block != "" {
				for lvl := leafLvl; lvl >= 1; lvl-- {
					if o, ok := overrides[lvl][sg.block]; ok {
						ns = o
						overridden++
						break
					}
				}
			}
			eff = append(eff, ns...)
		}
		te := document.NewTemplateEngine()
		loadOK := true
		for _, o := range ops {
			if _, err := te.LoadTemplate(o.Name, o.Content); err != nil {
				loadOK = false
			}
		}
		if !loadOK {
			feats["inheritance: a template of the chain does not load"]++
			continue
		}
		res.Evaluations++
		feats[fmt.Sprintf("inheritance: leaf %d levels above the root", leafLvl)]++
		if overridden > 0 {
			feats["inheritance: a block of the root is overridden on the way"]++
		}
		rop := engOp{Kind: "render", Name: leaf, data: d}
		got, ok := renderText(te, leaf, d)
		out := "None"
		if ok {
			out = "Some " + cStrRaw(got)
		}
		var coqOps []string
		for _, o := range append(ops, rop) {
			coqOps = append(coqOps, engOpCoq(o))
		}
		inhCases = append(inhCases, fmt.Sprintf("([%s],\n  [%s])", strings.Join(coqOps, ";\n  "), out))
		dist.add(strings.Join(coqOps, ";"))
		if !ok {
			res.OracleFailures = append(res.OracleFailures, OracleFailure{Clause: "renders", Class: "render_error", Detail: "a template of an inheritance chain does not render: " + strings.Join(coqOps, "; "), CaseID: ci})
			continue
		}
		if isDirty(d) || litsFormBraces(eff) {
			continue
		}
		var rb strings.Builder
		refRender(eff, d, nil, 0, 0, &rb)
		want := strings.Join(linesOf(rb.String()), "\n")
		if strings.Join(linesOf(got), "\n") != want {
			failCount["inheritance_differs"]++
			if failCount["inheritance_differs"] <= 5 {
				res.OracleFailures = append(res.OracleFailures, OracleFailure{Clause: "rendered_text", Class: "inheritance_differs",
					Detail: fmt.Sprintf("chain %s: rendering %s with %s gives %q; the root with the nearest overrides gives %q", strings.Join(coqOps[:len(coqOps)-1], " ; "), leaf, d.coq(), got, want), CaseID: ci})
			}
		}
	}
	res.DistinctNontrivial = dist.n()
	res.Shards = append(res.Shards, writeShardsPlain(cfg.out, "c16inh", "From Coq Require Import String List Bool.\nFrom WZ Require Import Model.Template Model.Engine Corr.EngineCorr.\nImport ListNotations.\nOpen Scope string_scope.\n", "(list op * list (option string))", "mismatches", inhCases, 40)...)
	for _, f := range tplShards {
		fh, err := os.OpenFile(filepath.Join(cfg.out, f), os.O_APPEND|os.O_WRONLY, 0644)
		if err == nil {
			fh.WriteString("Definition T := Eval vm_compute in theorem_cases cases.\nPrint T.\n")
			fh.Close()
		}
	}
	res.write(cfg.out)
	return nil
}

// litsFormBraces: a maximal run of adjacent literal nodes whose concatenation contains "{{" or "}}"
func litsFormBraces(ns []*tnode) bool {
	var run strings.Builder
	bad := false
	flush := func() {
		t := run.String()
		if strings.Contains(t, "{{") || strings.Contains(t, "}}") {
			bad = true
		}
		run.Reset()
	}
	for _, n := range ns {
		if n.kind == "lit" {
			run.WriteString(n.s)
			continue
		}
		flush()
		if litsFormBraces(n.th) || litsFormBraces(n.el) || litsFormBraces(n.body) {
			bad = true
		}
	}
	flush()
	return bad
}
