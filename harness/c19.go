package main

// C19: Markdown converts to Word totally and without losing or inventing text.
//
// Fidelity stream: Markdown documents are generated from a block/inline structure and printed; the expected Word
// body (block order, visible text, heading styles, run formatting, code lines, table cells and alignment) follows
// from the structure.  Totality stream: arbitrary bytes and Markdown-looking noise under every option combination:
// no panic, the result saves to a well-formed package.
// Correspondence (Corr/MdRenderCorr.v): the syntax tree goldmark builds for the text (dumped by the harness with the
// same extensions) goes to the model of the renderer; the model's blocks are compared with the document's.

import (
	"fmt"
	"os"
	"path/filepath"
	"strings"

	"github.com/zerx-lab/wordZero/pkg/document"
	"github.com/zerx-lab/wordZero/pkg/markdown"
)

func init() { props["C19"] = runC19 }

type mdInline struct {
	kind string // text emph strong code strike link softbreak strongemph escape entity autolink
	text string
	url  string
	kids []mdInline
}

type mdBlock struct {
	kind    string // heading para bullet ordered task quote fence indent hr table mathblock
	level   int
	inl     []mdInline
	items   [][]mdInline
	checked []bool
	sub     [][]mdBlock // nested lists per item
	lines   []string
	lang    string
	rows    [][]string
	aligns  []string // "", left, center, right
	paras   [][]mdInline
}

var mdWords = []string{"alpha", "beta", "gamma delta", "x1", "Zürich", "中文", "e=mc2", "semi;colon", "q?", "a.b"}

type mdGen struct {
	r     *rng
	feats map[string]int
	hard  bool // escapes, entities, autolinks, nested emphasis
}

// mdLongWords: words of many multi-byte characters (more bytes than runes: a limit counted in one and cut in the other)
var mdLongWords = []string{"标题文字很长的一个词语需要超过限制", "Заголовокоченьдлинныйтекст", "見出しの文字列がとても長い場合の確認用", "ÄÖÜäöüßÄÖÜäöüßÄÖÜäöüßÄÖÜ"}

func (g *mdGen) word() string {
	if g.r.chance(4) {
		g.feats["long multi-byte word"]++
		return mdLongWords[g.r.intn(len(mdLongWords))]
	}
	return mdWords[g.r.intn(len(mdWords))]
}

func (g *mdGen) inlines(n int, allowBreak bool) []mdInline {
	var out []mdInline
	for i := 0; i < n; i++ {
		if i > 0 {
			if allowBreak && g.r.chance(12) {
				out = append(out, mdInline{kind: "softbreak"})
				g.feats["soft break"]++
			} else {
				out = append(out, mdInline{kind: "text", text: " "})
			}
		}
		k := g.r.pick([]int{40, 10, 10, 10, 8, 10, 12})
		switch k {
		case 0:
			out = append(out, mdInline{kind: "text", text: g.word()})
		case 1:
			out = append(out, mdInline{kind: "emph", text: g.word()})
			g.feats["emphasis"]++
		case 2:
			out = append(out, mdInline{kind: "strong", text: g.word()})
			g.feats["strong"]++
		case 3:
			out = append(out, mdInline{kind: "code", text: g.word()})
			g.feats["code span"]++
		case 4:
			out = append(out, mdInline{kind: "strike", text: g.word()})
			g.feats["strike-through"]++
		case 5:
			out = append(out, mdInline{kind: "link", text: g.word(), url: "http://example.org/" + fmt.Sprint(g.r.intn(9))})
			g.feats["link"]++
		case 6:
			if !g.hard {
				out = append(out, mdInline{kind: "text", text: g.word()})
				break
			}
			nk := 4
			if allowBreak {
				nk = 5 // pictures in running text only: headings and quotes show the alternative text alone, which no clause of the property is about
			}
			switch g.r.intn(nk) {
			case 4:
				// a picture: the converter puts a text in its place ("[图片: " + the alternative text, or the path)
				alt := g.word()
				if g.r.chance(25) {
					alt = ""
				}
				out = append(out, mdInline{kind: "image", text: alt, url: "img/p" + fmt.Sprint(g.r.intn(9)) + ".png"})
				g.feats["picture"]++
			case 0:
				out = append(out, mdInline{kind: "escape", text: []string{"*", "_", "#", "[", "`", "\\"}[g.r.intn(6)]})
				g.feats["backslash escape"]++
			case 1:
				out = append(out, mdInline{kind: "entity", text: []string{"&", "<", "©", "\""}[g.r.intn(4)]})
				g.feats["entity"]++
			case 2:
				out = append(out, mdInline{kind: "autolink", url: "http://auto.example/" + fmt.Sprint(g.r.intn(9))})
				g.feats["autolink"]++
			case 3:
				out = append(out, mdInline{kind: "strongemph", text: g.word(), kids: []mdInline{{kind: "emph", text: g.word()}}})
				g.feats["emphasis inside strong"]++
			}
		}
	}
	return out
}

var entityNames = map[string]string{"&": "&amp;", "<": "&lt;", "©": "&copy;", "\"": "&quot;"}

func printInlines(ins []mdInline, b *strings.Builder) {
	for _, in := range ins {
		switch in.kind {
		case "text":
			b.WriteString(in.text)
		case "emph":
			b.WriteString("*" + in.text + "*")
		case "strong":
			b.WriteString("**" + in.text + "**")
		case "code":
			b.WriteString("`" + in.text + "`")
		case "strike":
			b.WriteString("~~" + in.text + "~~")
		case "link":
			b.WriteString("[" + in.text + "](" + in.url + ")")
		case "softbreak":
			b.WriteString("\n")
		case "escape":
			b.WriteString("\\" + in.text)
		case "entity":
			b.WriteString(entityNames[in.text])
		case "autolink":
			b.WriteString("<" + in.url + ">")
		case "image":
			b.WriteString("![" + in.text + "](" + in.url + ")")
		case "strongemph":
			b.WriteString("**" + in.text + " *" + in.kids[0].text + "* tail**")
		}
	}
}

type xRun struct {
	text                       string
	bold, italic, strike, code bool
}

// expected runs of a sequence of inlines (visible text and formatting)
func expectInlines(ins []mdInline) []xRun {
	var out []xRun
	for _, in := range ins {
		switch in.kind {
		case "text", "escape", "entity":
			out = append(out, xRun{text: in.text})
		case "emph":
			out = append(out, xRun{text: in.text, italic: true})
		case "strong":
			out = append(out, xRun{text: in.text, bold: true})
		case "code":
			out = append(out, xRun{text: in.text, code: true})
		case "strike":
			out = append(out, xRun{text: in.text, strike: true})
		case "link":
			out = append(out, xRun{text: in.text})
		case "softbreak":
			out = append(out, xRun{text: " "})
		case "autolink":
			out = append(out, xRun{text: in.url})
		case "image":
			if in.text != "" {
				out = append(out, xRun{text: "[图片: " + in.text + "]"})
			} else {
				out = append(out, xRun{text: "[图片: " + in.url + "]"})
			}
		case "strongemph":
			out = append(out, xRun{text: in.text + " ", bold: true}, xRun{text: in.kids[0].text, bold: true, italic: true}, xRun{text: " tail", bold: true})
		}
	}
	return out
}

func (g *mdGen) block(depth int) mdBlock {
	r := g.r
	switch r.pick([]int{14, 26, 10, 8, 8, 6, 8, 5, 4, 8, 3}) {
	case 0:
		g.feats["heading"]++
		return mdBlock{kind: "heading", level: r.rangeI(1, 6), inl: g.inlines(r.rangeI(1, 3), false)}
	case 1:
		g.feats["paragraph"]++
		return mdBlock{kind: "para", inl: g.inlines(r.rangeI(1, 6), true)}
	case 2, 3:
		b := mdBlock{kind: []string{"bullet", "ordered"}[r.intn(2)]}
		g.feats[b.kind+" list"]++
		for i, n := 0, r.rangeI(1, 4); i < n; i++ {
			b.items = append(b.items, g.inlines(r.rangeI(1, 3), false))
			var sub []mdBlock
			if depth < 2 && r.chance(20) {
				sb := g.block(depth + 1)
				if sb.kind == "bullet" || sb.kind == "ordered" {
					sub = append(sub, sb)
					g.feats["nested list"]++
				}
			}
			b.sub = append(b.sub, sub)
		}
		return b
	case 4:
		b := mdBlock{kind: "task"}
		g.feats["task list"]++
		for i, n := 0, r.rangeI(1, 3); i < n; i++ {
			b.items = append(b.items, g.inlines(r.rangeI(1, 3), false))
			b.checked = append(b.checked, r.chance(50))
		}
		return b
	case 5:
		b := mdBlock{kind: "quote"}
		g.feats["block quote"]++
		for i, n := 0, r.rangeI(1, 2); i < n; i++ {
			b.paras = append(b.paras, g.inlines(r.rangeI(1, 4), false))
		}
		return b
	case 6:
		b := mdBlock{kind: "fence", lang: []string{"", "go", "python"}[r.intn(3)]}
		g.feats["fenced code"]++
		for i, n := 0, r.rangeI(1, 4); i < n; i++ {
			b.lines = append(b.lines, []string{"x := 1", "    indented()", "\tif a < b && c > d {", "", "# not a heading", "**not bold**"}[r.intn(6)])
		}
		return b
	case 7:
		b := mdBlock{kind: "indent"}
		g.feats["indented code"]++
		for i, n := 0, r.rangeI(1, 3); i < n; i++ {
			b.lines = append(b.lines, []string{"code line", "  two more", "a*b*c"}[r.intn(3)])
		}
		return b
	case 8:
		g.feats["thematic break"]++
		return mdBlock{kind: "hr"}
	case 9:
		nc := r.rangeI(1, 4)
		b := mdBlock{kind: "table"}
		g.feats["table"]++
		for c := 0; c < nc; c++ {
			b.aligns = append(b.aligns, []string{"", "left", "center", "right"}[r.intn(4)])
		}
		for i, n := 0, r.rangeI(1, 4); i < n; i++ {
			var row []string
			for c := 0; c < nc; c++ {
				row = append(row, []string{g.word(), "", "**" + g.word() + "**", "a `c` b"}[r.pick([]int{60, 10, 15, 15})])
			}
			b.rows = append(b.rows, row)
		}
		return b
	default:
		g.feats["formula block"]++
		return mdBlock{kind: "mathblock", lines: []string{[]string{"x^2 + y^2 = z^2", "\\frac{a}{b}", "\\alpha + \\beta"}[r.intn(3)]}}
	}
}

func printBlocks(bs []mdBlock, indent string, b *strings.Builder) {
	for bi, bl := range bs {
		if bi > 0 || indent != "" {
			b.WriteString("\n")
		}
		switch bl.kind {
		case "heading":
			b.WriteString(indent + strings.Repeat("#", bl.level) + " ")
			printInlines(bl.inl, b)
			b.WriteString("\n")
		case "para":
			var ib strings.Builder
			printInlines(bl.inl, &ib)
			b.WriteString(indent + strings.ReplaceAll(ib.String(), "\n", "\n"+indent) + "\n")
		case "bullet", "ordered", "task":
			for i, it := range bl.items {
				marker := "- "
				if bl.kind == "ordered" {
					marker = fmt.Sprintf("%d. ", i+1)
				}
				if bl.kind == "task" {
					if bl.checked[i] {
						marker = "- [x] "
					} else {
						marker = "- [ ] "
					}
				}
				b.WriteString(indent + marker)
				printInlines(it, b)
				b.WriteString("\n")
				if bl.kind != "task" && len(bl.sub[i]) > 0 {
					printBlocks(bl.sub[i], indent+strings.Repeat(" ", len(marker)), b)
				}
			}
		case "quote":
			for i, p := range bl.paras {
				if i > 0 {
					b.WriteString(indent + ">\n")
				}
				b.WriteString(indent + "> ")
				printInlines(p, b)
				b.WriteString("\n")
			}
		case "fence":
			b.WriteString(indent + "```" + bl.lang + "\n")
			for _, l := range bl.lines {
				b.WriteString(indent + l + "\n")
			}
			b.WriteString(indent + "```\n")
		case "indent":
			for _, l := range bl.lines {
				b.WriteString(indent + "    " + l + "\n")
			}
		case "hr":
			b.WriteString(indent + "---\n")
		case "table":
			hdr := make([]string, len(bl.aligns))
			sep := make([]string, len(bl.aligns))
			for c := range bl.aligns {
				hdr[c] = fmt.Sprintf("H%d", c)
				sep[c] = map[string]string{"": "---", "left": ":---", "center": ":---:", "right": "---:"}[bl.aligns[c]]
			}
			b.WriteString(indent + "| " + strings.Join(hdr, " | ") + " |\n")
			b.WriteString(indent + "| " + strings.Join(sep, " | ") + " |\n")
			for _, row := range bl.rows {
				b.WriteString(indent + "| " + strings.Join(row, " | ") + " |\n")
			}
		case "mathblock":
			b.WriteString(indent + "$$\n" + indent + bl.lines[0] + "\n" + indent + "$$\n")
		}
	}
}

// ---- what the document should hold ---------------------------------------------------------------

type xBlock struct {
	kind   string // heading para item quote code hr table math
	level  int
	runs   []xRun
	text   string
	rows   [][]string
	aligns []string
}

func runsText(rs []xRun) string {
	var b strings.Builder
	for _, r := range rs {
		b.WriteString(r.text)
	}
	return b.String()
}

func stripMd(s string) string {
	s = strings.ReplaceAll(s, "**", "")
	s = strings.ReplaceAll(s, "`", "")
	return s
}

func expectBlocks(bs []mdBlock, out *[]xBlock) {
	for _, bl := range bs {
		switch bl.kind {
		case "heading":
			*out = append(*out, xBlock{kind: "heading", level: bl.level, text: runsText(expectInlines(bl.inl))})
		case "para":
			*out = append(*out, xBlock{kind: "para", runs: expectInlines(bl.inl)})
		case "bullet", "ordered", "task":
			for i, it := range bl.items {
				*out = append(*out, xBlock{kind: "item", text: runsText(expectInlines(it))})
				if bl.kind != "task" {
					expectBlocks(bl.sub[i], out)
				}
			}
		case "quote":
			var t []string
			for _, p := range bl.paras {
				t = append(t, runsText(expectInlines(p)))
			}
			*out = append(*out, xBlock{kind: "quote", text: strings.Join(t, "")})
		case "fence", "indent":
			for _, l := range bl.lines {
				*out = append(*out, xBlock{kind: "code", text: l})
			}
		case "hr":
			*out = append(*out, xBlock{kind: "hr"})
		case "table":
			x := xBlock{kind: "table", aligns: bl.aligns}
			hdr := make([]string, len(bl.aligns))
			for c := range hdr {
				hdr[c] = fmt.Sprintf("H%d", c)
			}
			x.rows = append(x.rows, hdr)
			for _, row := range bl.rows {
				var xr []string
				for _, c := range row {
					xr = append(xr, stripMd(c))
				}
				x.rows = append(x.rows, xr)
			}
			*out = append(*out, x)
		case "mathblock":
			*out = append(*out, xBlock{kind: "math"})
		}
	}
}

// ---- what the document holds -------------------------------------------------------------------------

type gBlock struct {
	style string
	runs  []xRun
	hr    bool
	table *document.Table
	math  bool
}

func readDocBlocks(d *document.Document) []gBlock {
	var out []gBlock
	for _, e := range d.Body.Elements {
		switch x := e.(type) {
		case *document.Paragraph:
			g := gBlock{}
			if x.Properties != nil && x.Properties.ParagraphStyle != nil {
				g.style = x.Properties.ParagraphStyle.Val
			}
			if x.Properties != nil && x.Properties.ParagraphBorder != nil {
				g.hr = true
			}
			for i := range x.Runs {
				rp := x.Runs[i].Properties
				xr := xRun{text: x.Runs[i].Text.Content}
				if rp != nil {
					xr.bold = rp.Bold != nil
					xr.italic = rp.Italic != nil
					xr.strike = rp.Strike != nil
					xr.code = rp.FontFamily != nil && rp.FontFamily.ASCII == "Consolas"
					if rp.FontFamily != nil && rp.FontFamily.ASCII == "Cambria Math" {
						g.math = true
					}
				}
				if xr.text != "" {
					g.runs = append(g.runs, xr)
				}
			}
			out = append(out, g)
		case *document.Table:
			out = append(out, gBlock{table: x})
		}
	}
	return out
}

// merge adjacent runs of the same formatting
func normRuns(rs []xRun) []xRun {
	var out []xRun
	for _, r := range rs {
		if r.text == "" {
			continue
		}
		if n := len(out); n > 0 && out[n-1].bold == r.bold && out[n-1].italic == r.italic && out[n-1].strike == r.strike && out[n-1].code == r.code {
			out[n-1].text += r.text
		} else {
			out = append(out, r)
		}
	}
	return out
}

func headingLevelOf(style string) int {
	var l int
	if _, err := fmt.Sscanf(style, "Heading%d", &l); err == nil {
		return l
	}
	return 0
}

func compareBlocks(want []xBlock, got []gBlock) (class, detail string) {
	if len(want) != len(got) {
		var ws, gs []string
		for _, w := range want {
			ws = append(ws, w.kind)
		}
		for _, g := range got {
			t := runsText(g.runs)
			if g.table != nil {
				t = "<table>"
			}
			gs = append(gs, fmt.Sprintf("%s:%q", g.style, t))
		}
		return "block_count", fmt.Sprintf("%d blocks expected (%v), %d found (%v)", len(want), ws, len(got), gs)
	}
	for i, w := range want {
		g := got[i]
		gt := runsText(g.runs)
		switch w.kind {
		case "heading":
			if gt != w.text {
				return "heading_text", fmt.Sprintf("block %d: heading text %q, expected %q", i, gt, w.text)
			}
			if headingLevelOf(g.style) != w.level {
				return "heading_style", fmt.Sprintf("block %d: level-%d heading has style %q", i, w.level, g.style)
			}
		case "para":
			if gt != runsText(w.runs) {
				return "paragraph_text", fmt.Sprintf("block %d: paragraph text %q, expected %q", i, gt, runsText(w.runs))
			}
			a, b := normRuns(g.runs), normRuns(w.runs)
			if fmt.Sprint(a) != fmt.Sprint(b) {
				return "run_formatting", fmt.Sprintf("block %d: runs %v, expected %v", i, a, b)
			}
		case "item":
			t := strings.TrimLeft(gt, " ")
			for _, m := range []string{"• ", "☐ ", "☑ "} {
				t = strings.TrimPrefix(t, m)
			}
			if t != w.text {
				return "list_item_text", fmt.Sprintf("block %d: list item text %q, expected %q", i, gt, w.text)
			}
		case "quote":
			if strings.Join(strings.Fields(gt), "") != strings.Join(strings.Fields(w.text), "") {
				return "quote_text", fmt.Sprintf("block %d: quote text %q, expected %q", i, gt, w.text)
			}
			if g.style != "Quote" {
				return "quote_style", fmt.Sprintf("block %d: quote has style %q", i, g.style)
			}
		case "code":
			exp := w.text
			if strings.TrimSpace(exp) == "" {
				exp = " "
			}
			if strings.TrimRight(gt, "\n") != exp {
				return "code_line", fmt.Sprintf("block %d: code line %q, expected %q", i, gt, exp)
			}
			if g.style != "CodeBlock" {
				return "code_style", fmt.Sprintf("block %d: code line has style %q", i, g.style)
			}
		case "hr":
			if !g.hr || gt != "" {
				return "thematic_break", fmt.Sprintf("block %d: thematic break became %q (border %v)", i, gt, g.hr)
			}
		case "table":
			if g.table == nil {
				return "table_missing", fmt.Sprintf("block %d: a table became a paragraph %q", i, gt)
			}
			if len(g.table.Rows) != len(w.rows) {
				return "table_rows", fmt.Sprintf("block %d: %d rows, expected %d", i, len(g.table.Rows), len(w.rows))
			}
			for ri, row := range w.rows {
				if len(g.table.Rows[ri].Cells) != len(row) {
					return "table_cols", fmt.Sprintf("block %d row %d: %d cells, expected %d", i, ri, len(g.table.Rows[ri].Cells), len(row))
				}
				for ci, ct := range row {
					got, _ := g.table.GetCellText(ri, ci)
					if got != ct {
						return "table_cell_text", fmt.Sprintf("block %d cell (%d,%d): %q, expected %q", i, ri, ci, got, ct)
					}
					cell := &g.table.Rows[ri].Cells[ci]
					al := ""
					if len(cell.Paragraphs) > 0 && cell.Paragraphs[0].Properties != nil && cell.Paragraphs[0].Properties.Justification != nil {
						al = cell.Paragraphs[0].Properties.Justification.Val
					}
					wantAl := w.aligns[ci]
					if wantAl == "" {
						wantAl = "left"
					}
					if al != wantAl && !(al == "" && wantAl == "left") {
						return "table_alignment", fmt.Sprintf("block %d cell (%d,%d): alignment %q, expected %q", i, ri, ci, al, wantAl)
					}
				}
			}
		case "math":
			if gt == "" {
				return "math_empty", fmt.Sprintf("block %d: formula block without text", i)
			}
		}
	}
	return "", ""
}

func mdOptions(r *rng) *markdown.ConvertOptions {
	o := markdown.DefaultOptions()
	o.EnableGFM = true
	o.EnableTables = true
	o.EnableTaskList = true
	o.EnableMath = true
	o.EnableFootnotes = r.chance(50)
	o.GenerateTOC = r.chance(50)
	o.TOCMaxLevel = r.rangeI(1, 4)
	return o
}

func runC19(cfg *runCfg) error {
	res := newResult("C19", cfg.seed)
	r := newRng(cfg.seed + 1919)
	feats := map[string]int{}
	dist := newDistinct()
	failCount := map[string]int{}
	var cases []string
	fail := func(ci int, clause, class, detail string, c interface{}) {
		failCount[class]++
		if failCount[class] <= 4 {
			res.OracleFailures = append(res.OracleFailures, OracleFailure{Clause: clause, Class: class, Detail: detail, CaseID: ci, Case: c})
		}
	}
	for ci := 0; ci < cfg.n; ci++ {
		cr := r.fork()
		g := &mdGen{r: cr, feats: feats, hard: ci%3 == 2}
		var blocks []mdBlock
		for i, n := 0, cr.rangeI(1, 6); i < n; i++ {
			b := g.block(0)
			if len(blocks) > 0 && b.kind == "indent" {
				switch blocks[len(blocks)-1].kind {
				case "bullet", "ordered", "task", "para", "quote", "indent":
					// indented text after these continues them (lazy continuation): not an indented code block
					b = mdBlock{kind: "hr"}
				}
			}
			blocks = append(blocks, b)
		}
		var sb strings.Builder
		printBlocks(blocks, "", &sb)
		src := sb.String()
		if cr.chance(15) {
			// the same text with the line endings of another platform
			src = strings.ReplaceAll(src, "\n", "\r\n")
			feats["source with CRLF line endings"]++
		}
		var want []xBlock
		expectBlocks(blocks, &want)
		res.Evaluations++
		dist.add(src)
		var ps []panicRec
		var d *document.Document
		var err error
		opts := mdOptions(cr)
		// an option for a construct the document does not use is switched off now and then: nothing else may change
		// (strike-through, autolinks and the rest of the GitHub flavour stay on)
		hasKind := func(k string) bool {
			var walk func(bs []mdBlock) bool
			walk = func(bs []mdBlock) bool {
				for _, b := range bs {
					if b.kind == k {
						return true
					}
					for _, sub := range b.sub {
						if walk(sub) {
							return true
						}
					}
				}
				return false
			}
			return walk(blocks)
		}
		if !hasKind("table") && cr.chance(40) {
			opts.EnableTables = false
			feats["tables switched off (the document has none)"]++
		}
		if !hasKind("task") && cr.chance(40) {
			opts.EnableTaskList = false
			feats["task lists switched off (the document has none)"]++
		}
		if cr.chance(10) && !strings.Contains(src, "![](") {
			// the file route: ConvertFile writes a document, which is opened again
			feats["converted through ConvertFile"]++
			mdPath, docxPath := filepath.Join(cfg.out, "c19in.md"), filepath.Join(cfg.out, "c19out.docx")
			os.WriteFile(mdPath, []byte(src), 0644)
			guard("ConvertFile", &ps, func() {
				if err = markdown.NewConverter(opts).ConvertFile(mdPath, docxPath, nil); err == nil {
					d, err = document.Open(docxPath)
				}
			})
		} else {
			guard("ConvertString", &ps, func() { d, err = markdown.NewConverter(opts).ConvertString(src, nil) })
		}
		if len(ps) > 0 {
			fail(ci, "no_panic", "panic", fmt.Sprintf("%q: %s", src, ps[0].msg), nil)
			continue
		}
		if err != nil {
			fail(ci, "converts", "convert_error", fmt.Sprintf("%q: %v", src, err), nil)
			continue
		}
		// correspondence: the parser's tree and the document's blocks
		dm := &mdDumper{src: []byte(src)}
		astCoq := dm.blocks(parseLikeConverter([]byte(src), opts))
		if !dm.hasMath && len(src) < 3000 {
			cases = append(cases, fmt.Sprintf("mkCase %s\n  %s\n  %s", cBool(opts.EnableTables), astCoq, docBlocksCoq(d)))
		}
		got := readDocBlocks(d)
		if class, detail := compareBlocks(want, got); class != "" {
			if g.hard {
				class = "hard:" + class
			}
			fail(ci, "fidelity", class, fmt.Sprintf("markdown %q: %s", src, detail), map[string]interface{}{"markdown": src})
		}
		// the two ways of asking for the headings of the converted document agree: as many entries are listed as are
		// counted (headings may repeat their text)
		var hps []panicRec
		guard("heading accessors", &hps, func() {
			total := 0
			for _, n := range d.GetHeadingCount() {
				total += n
			}
			if listed := len(d.ListHeadings()); listed != total {
				fail(ci, "fidelity", "heading_accessors", fmt.Sprintf("markdown %q: ListHeadings lists %d headings, GetHeadingCount counts %d", src, listed, total), map[string]interface{}{"markdown": src})
			}
		})
		if b, e := d.ToBytes(); e != nil {
			fail(ci, "saves", "save_error", e.Error(), nil)
		} else if v, e := readPackage(b); e != nil || len(v.checkC01()) > 0 {
			fail(ci, "well_formed", "package_malformed", fmt.Sprintf("%q: %v %v", src, e, v.checkC01()), nil)
		}
	}
	// ---- totality: arbitrary bytes and Markdown-looking noise under every option combination
	noise := []string{"#", "##### ", "*", "**", "_", "`", "```", "~~", "[", "](", ")", "<", ">", "&amp;", "&#", "\\", "|", "---", ":--:", "- ", "1. ", "- [ ] ", "> ", "$$", "$", "\n", "\n\n", "    ", "\t", "![", "<div>", "</div>", "[^1]", "[^1]: ", "\x00", "\xff", "a", " "}
	for ci := 0; ci < cfg.n/2; ci++ {
		cr := r.fork()
		var sb strings.Builder
		if cr.chance(25) {
			for i, n := 0, cr.intn(200); i < n; i++ {
				sb.WriteByte(byte(cr.intn(256)))
			}
		} else {
			for i, n := 0, cr.intn(60); i < n; i++ {
				sb.WriteString(noise[cr.intn(len(noise))])
			}
		}
		src := sb.String()
		o := markdown.DefaultOptions()
		o.EnableGFM, o.EnableTables, o.EnableTaskList, o.EnableMath, o.EnableFootnotes, o.GenerateTOC = cr.chance(50), cr.chance(50), cr.chance(50), cr.chance(50), cr.chance(50), cr.chance(50)
		o.TOCMaxLevel = cr.intn(7)
		res.Evaluations++
		feats["totality: noise under an option combination"]++
		var ps []panicRec
		var d *document.Document
		var err error
		guard("ConvertBytes", &ps, func() { d, err = markdown.NewConverter(o).ConvertBytes([]byte(src), nil) })
		if len(ps) > 0 {
			fail(ci, "no_panic", "panic", fmt.Sprintf("%q: %s in %s", src, ps[0].msg, ps[0].where), map[string]interface{}{"markdown_hex": fmt.Sprintf("%x", src)})
			continue
		}
		if err != nil || d == nil {
			continue
		}
		guard("ToBytes", &ps, func() {
			if b, e := d.ToBytes(); e != nil {
				fail(ci, "saves", "save_error", fmt.Sprintf("%q: %v", src, e), nil)
			} else if v, e := readPackage(b); e != nil || len(v.checkC01()) > 0 {
				fail(ci, "well_formed", "package_malformed", fmt.Sprintf("%q: %v %v", src, e, v.checkC01()), nil)
			}
		})
		if len(ps) > 0 {
			fail(ci, "no_panic", "panic", fmt.Sprintf("%q: %s in %s", src, ps[0].msg, ps[0].where), nil)
		}
	}
	res.DistinctNontrivial = dist.n()
	res.Histogram = feats
	res.Shards = writeShardsPlain(cfg.out, "c19cases", "From Coq Require Import String List Bool.\nFrom WZ Require Import Model.MdRender Corr.MdRenderCorr.\nImport ListNotations.\nOpen Scope string_scope.\n", "case", "mismatches", cases, 60)
	res.write(cfg.out)
	return nil
}
