package main

import (
	"encoding/json"
	"fmt"
	"reflect"
	"sort"
	"strings"

	"github.com/zerx-lab/wordZero/pkg/style"
)

func init() { props["C14"] = runC14 }

// identity of setting objects: pointer -> atom
type styleWorld struct {
	sm    *style.StyleManager
	atoms map[interface{}]int
	next  int
	ids   []string
}

func (w *styleWorld) atom(p interface{}) int {
	if a, ok := w.atoms[p]; ok {
		return a
	}
	w.next++
	w.atoms[p] = w.next
	return w.next
}

func styleIDNum(w *styleWorld, id string) int {
	for i, s := range w.ids {
		if s == id {
			return i + 1
		}
	}
	w.ids = append(w.ids, id)
	return len(w.ids)
}

// propsOf reads the pointer fields of a *ParagraphProperties / *RunProperties as (field, atom) pairs.
func (w *styleWorld) propsOf(v reflect.Value, known bool) (string, bool) {
	if v.IsNil() {
		return "None", false
	}
	e := v.Elem()
	var xs []string
	for i := 0; i < e.NumField(); i++ {
		f := e.Type().Field(i)
		if f.Name == "XMLName" || e.Field(i).Kind() != reflect.Ptr || e.Field(i).IsNil() {
			continue
		}
		p := e.Field(i).Interface()
		a, ok := w.atoms[p]
		if !ok {
			if known {
				a = 999999 // an object the registry never held: the implementation made a copy
			} else {
				a = w.atom(p)
			}
		}
		xs = append(xs, fmt.Sprintf("(%s, %d%%N)", cStr(f.Name), a))
	}
	return "(Some " + cList(xs) + ")", true
}

func (w *styleWorld) styCoq(s *style.Style) string {
	based := "None"
	if s.BasedOn != nil {
		based = fmt.Sprintf("(Some %d%%N)", styleIDNum(w, s.BasedOn.Val))
	}
	ppr, _ := w.propsOf(reflect.ValueOf(s.ParagraphPr), false)
	rpr, _ := w.propsOf(reflect.ValueOf(s.RunPr), false)
	tbl := "None"
	if s.TablePr != nil {
		tbl = fmt.Sprintf("(Some %d%%N)", w.atom(s.TablePr))
	}
	return fmt.Sprintf("(mkSty %s %s %s %s)", based, ppr, rpr, tbl)
}

func (w *styleWorld) snapshot() string {
	all := w.sm.GetAllStyles()
	sort.Slice(all, func(i, j int) bool { return all[i].StyleID < all[j].StyleID })
	b, _ := json.Marshal(all)
	return string(b)
}

// fillProps sets a random subset of the pointer fields of a properties struct to fresh objects.
func fillProps(r *rng, target reflect.Value, pct int) {
	e := target.Elem()
	for i := 0; i < e.NumField(); i++ {
		f := e.Type().Field(i)
		if f.Name == "XMLName" || e.Field(i).Kind() != reflect.Ptr {
			continue
		}
		if r.chance(pct) {
			nv := reflect.New(f.Type.Elem())
			fillSetting(r, nv.Elem(), 3)
			e.Field(i).Set(nv)
		} else if r.chance(30) {
			e.Field(i).Set(reflect.Zero(f.Type))
		}
	}
}

// fillSetting: string fields get a value (so that serialisation is meaningful); settings nested inside a setting
// (the sides of a border, ...) are populated too, each with some probability
func fillSetting(r *rng, v reflect.Value, depth int) {
	for j := 0; j < v.NumField(); j++ {
		fv := v.Field(j)
		if v.Type().Field(j).Name == "XMLName" || !fv.CanSet() {
			continue
		}
		switch fv.Kind() {
		case reflect.String:
			fv.SetString(fmt.Sprintf("v%d", r.intn(100)))
		case reflect.Ptr:
			if depth > 0 && fv.Type().Elem().Kind() == reflect.Struct && r.chance(60) {
				nv := reflect.New(fv.Type().Elem())
				fillSetting(r, nv.Elem(), depth-1)
				fv.Set(nv)
			}
		case reflect.Struct:
			if depth > 0 {
				fillSetting(r, fv, depth-1)
			}
		}
	}
}

type styleOp struct {
	Kind   string `json:"kind"` // Add | Edit | Remove | Query
	ID     string `json:"id"`
	Based  string `json:"based,omitempty"`
	Detail string `json:"detail,omitempty"`
}

func genStyleIDs(r *rng) []string {
	n := r.rangeI(1, 9)
	ids := []string{}
	for i := 0; i < n; i++ {
		// some ids differ from another id of the case only in letter case: ids are exact strings
		switch {
		case i > 0 && r.chance(20):
			ids = append(ids, strings.ToUpper(ids[r.intn(len(ids))]))
		case r.chance(8):
			ids = append(ids, []string{"normal", "NORMAL", "heading1", "Ghost"}[r.intn(4)])
		default:
			ids = append(ids, fmt.Sprintf("s%d", i))
		}
	}
	return ids
}

// independent reference: the setting of the style itself, else of the nearest ancestor that has one
// exactStyle: the registered style with exactly this id (from the listing, not from the lookup under test)
func exactStyle(sm *style.StyleManager, id string) *style.Style {
	for _, s := range sm.GetAllStyles() {
		if s.StyleID == id {
			return s
		}
	}
	return nil
}

func nearestRef(sm *style.StyleManager, id string, run bool, field string) interface{} {
	visited := map[string]bool{}
	cur := id
	for {
		st := exactStyle(sm, cur)
		if st == nil || visited[cur] {
			return nil
		}
		visited[cur] = true
		var pv reflect.Value
		if run {
			pv = reflect.ValueOf(st.RunPr)
		} else {
			pv = reflect.ValueOf(st.ParagraphPr)
		}
		if !pv.IsNil() {
			fv := pv.Elem().FieldByName(field)
			if fv.IsValid() && !fv.IsNil() {
				return fv.Interface()
			}
		}
		if st.BasedOn == nil {
			return nil
		}
		cur = st.BasedOn.Val
	}
}

func runStyleCase(r *rng) (coq string, ops []styleOp, fail *OracleFailure, nQueries int) {
	w := &styleWorld{sm: style.NewStyleManager(), atoms: map[interface{}]int{}}
	// keep three predefined styles, drop the rest (smaller cases; the predefined chain Heading -> Normal stays)
	keep := map[string]bool{"Normal": true, "Heading1": true, "Heading2": true}
	var steps []string
	for _, s := range w.sm.GetAllStyles() {
		if !keep[s.StyleID] || r.chance(30) {
			w.sm.RemoveStyle(s.StyleID)
		}
	}
	all := w.sm.GetAllStyles()
	sort.Slice(all, func(i, j int) bool { return all[i].StyleID < all[j].StyleID })
	for _, s := range all {
		steps = append(steps, fmt.Sprintf("SSet %d%%N %s", styleIDNum(w, s.StyleID), w.styCoq(s)))
	}
	ids := genStyleIDs(r)
	pool := append(append([]string{}, ids...), "Normal", "Heading1", "ghost")
	nOps := r.rangeI(3, 22)
	for i := 0; i < nOps; i++ {
		switch r.pick([]int{30, 22, 6, 42}) {
		case 0: // AddStyle (new or replacing)
			id := ids[r.intn(len(ids))]
			st := &style.Style{Type: "paragraph", StyleID: id, Name: &style.StyleName{Val: id}}
			based := ""
			if r.chance(75) {
				based = pool[r.intn(len(pool))]
				st.BasedOn = &style.BasedOn{Val: based}
			}
			if r.chance(75) {
				st.ParagraphPr = &style.ParagraphProperties{}
				fillProps(r, reflect.ValueOf(st.ParagraphPr), 35)
			}
			if r.chance(75) {
				st.RunPr = &style.RunProperties{}
				fillProps(r, reflect.ValueOf(st.RunPr), 35)
			}
			if r.chance(15) {
				st.TablePr = &style.TableProperties{}
			}
			w.sm.AddStyle(st)
			ops = append(ops, styleOp{Kind: "Add", ID: id, Based: based})
			steps = append(steps, fmt.Sprintf("SSet %d%%N %s", styleIDNum(w, id), w.styCoq(st)))
		case 1: // edit in place through the pointer the manager hands out
			id := pool[r.intn(len(pool))]
			st := w.sm.GetStyle(id)
			if st == nil {
				continue
			}
			what := r.intn(5)
			switch what {
			case 0:
				if st.ParagraphPr == nil {
					st.ParagraphPr = &style.ParagraphProperties{}
				}
				fillProps(r, reflect.ValueOf(st.ParagraphPr), 30)
			case 1:
				if st.RunPr == nil {
					st.RunPr = &style.RunProperties{}
				}
				fillProps(r, reflect.ValueOf(st.RunPr), 30)
			case 2:
				b := pool[r.intn(len(pool))]
				st.BasedOn = &style.BasedOn{Val: b}
			case 3:
				st.BasedOn = nil
			case 4:
				if r.chance(50) {
					st.ParagraphPr = nil
				} else {
					st.RunPr = nil
				}
			}
			ops = append(ops, styleOp{Kind: "Edit", ID: id, Detail: fmt.Sprint(what)})
			steps = append(steps, fmt.Sprintf("SSet %d%%N %s", styleIDNum(w, id), w.styCoq(st)))
		case 2:
			id := pool[r.intn(len(pool))]
			w.sm.RemoveStyle(id)
			ops = append(ops, styleOp{Kind: "Remove", ID: id})
			steps = append(steps, fmt.Sprintf("SRemove %d%%N", styleIDNum(w, id)))
		default:
			id := pool[r.intn(len(pool))]
			before := w.snapshot()
			res := w.sm.GetStyleWithInheritance(id)
			after := w.snapshot()
			nQueries++
			ops = append(ops, styleOp{Kind: "Query", ID: id})
			unchanged := before == after
			if res == nil {
				steps = append(steps, fmt.Sprintf("SQuery (mkQ %d%%N false None None None %s)", styleIDNum(w, id), cBool(unchanged)))
				if fail == nil && exactStyle(w.sm, id) != nil {
					fail = &OracleFailure{Clause: "resolve_defined", Detail: fmt.Sprintf("op %d: style %s is registered but resolves to nil", i, id)}
				}
				continue
			}
			ppr, _ := w.propsOf(reflect.ValueOf(res.ParagraphPr), true)
			rpr, _ := w.propsOf(reflect.ValueOf(res.RunPr), true)
			tbl := "None"
			if res.TablePr != nil {
				a, ok := w.atoms[res.TablePr]
				if !ok {
					a = 999999
				}
				tbl = fmt.Sprintf("(Some %d%%N)", a)
			}
			steps = append(steps, fmt.Sprintf("SQuery (mkQ %d%%N true %s %s %s %s)", styleIDNum(w, id), ppr, rpr, tbl, cBool(unchanged)))
			// ---- oracle: nearest definition, registry untouched
			if fail == nil && !unchanged {
				fail = &OracleFailure{Clause: "registry_unchanged", Detail: fmt.Sprintf("op %d: resolving %s modified the registered styles", i, id)}
			}
			if fail == nil {
				for _, x := range []struct {
					run bool
					pv  reflect.Value
					t   reflect.Type
				}{{false, reflect.ValueOf(res.ParagraphPr), reflect.TypeOf(style.ParagraphProperties{})}, {true, reflect.ValueOf(res.RunPr), reflect.TypeOf(style.RunProperties{})}} {
					for k := 0; k < x.t.NumField(); k++ {
						f := x.t.Field(k)
						if f.Name == "XMLName" || f.Type.Kind() != reflect.Ptr {
							continue
						}
						want := nearestRef(w.sm, id, x.run, f.Name)
						var got interface{}
						if !x.pv.IsNil() && !x.pv.Elem().Field(k).IsNil() {
							got = x.pv.Elem().Field(k).Interface()
						}
						same := (want == nil && got == nil) || (want != nil && got != nil && reflect.DeepEqual(want, got))
						if !same && fail == nil {
							fail = &OracleFailure{Clause: "resolve_nearest", Detail: fmt.Sprintf("op %d: %s.%s resolves to %v, the nearest definition along the based-on chain is %v", i, id, f.Name, jsonOf(got), jsonOf(want))}
						}
					}
				}
			}
		}
	}
	// clone independence: equal to the source, and no write through the clone reaches the source
	before := w.snapshot()
	cl := w.sm.Clone()
	cw := &styleWorld{sm: cl}
	if fail == nil && cw.snapshot() != before {
		fail = &OracleFailure{Clause: "clone_equal", Detail: "Clone() differs from its source"}
	}
	for _, st := range cl.GetAllStyles() {
		scribble(reflect.ValueOf(st), map[uintptr]bool{})
	}
	if fail == nil && w.snapshot() != before {
		fail = &OracleFailure{Clause: "clone_independent", Detail: "writing through the cloned registry changed the source registry"}
	}
	return "[" + strings.Join(steps, ";\n ") + "]", ops, fail, nQueries
}

func jsonOf(v interface{}) string {
	if v == nil {
		return "none"
	}
	b, _ := json.Marshal(v)
	return string(b)
}

// scribble overwrites every string reachable from v (through pointers, structs, slices)
func scribble(v reflect.Value, seen map[uintptr]bool) {
	switch v.Kind() {
	case reflect.Ptr:
		if v.IsNil() || seen[v.Pointer()] {
			return
		}
		seen[v.Pointer()] = true
		scribble(v.Elem(), seen)
	case reflect.Struct:
		for i := 0; i < v.NumField(); i++ {
			if v.Type().Field(i).PkgPath == "" {
				scribble(v.Field(i), seen)
			}
		}
	case reflect.Slice:
		for i := 0; i < v.Len(); i++ {
			scribble(v.Index(i), seen)
		}
	case reflect.String:
		if v.CanSet() {
			v.SetString("SCRIBBLED")
		}
	case reflect.Bool:
		if v.CanSet() {
			v.SetBool(!v.Bool())
		}
	}
}

func runC14(cfg *runCfg) error {
	res := newResult("C14", cfg.seed)
	r := newRng(cfg.seed + 1414)
	dist := newDistinct()
	res.Rule = "histories on one style manager: AddStyle (1-9 custom styles over a random based-on graph incl. self loops, cycles, dangling parents, the predefined Heading->Normal chain; every subset of paragraph/run settings, set by reflection so new fields are covered), in-place edits through the pointer GetStyle returns, RemoveStyle, GetStyleWithInheritance queries in between; then Clone + scribble; non-trivial = at least 2 queries after at least 2 modifications; distinct by hash of the op list"
	var coqCases []string
	for ci := 0; ci < cfg.n; ci++ {
		cr := r.fork()
		if cfg.only >= 0 && ci != cfg.only {
			continue
		}
		coq, ops, fail, nq := runStyleCase(cr)
		res.Evaluations++
		mods := 0
		for _, o := range ops {
			res.Histogram[o.Kind]++
			if o.Kind != "Query" {
				mods++
			}
		}
		if nq >= 2 && mods >= 2 {
			dist.add(ops)
		}
		if fail != nil {
			fail.Case, fail.CaseID = map[string]interface{}{"seed": cfg.seed, "case": ci, "ops": ops}, ci
			res.OracleFailures = append(res.OracleFailures, *fail)
		}
		coqCases = append(coqCases, coq)
		res.Cases = append(res.Cases, ops)
		if len(res.Samples) < 2 && nq >= 3 {
			res.Samples = append(res.Samples, ops)
		}
	}
	res.DistinctNontrivial = dist.n()
	res.Shards = writeShards(cfg.out, "c14cases", "From Coq Require Import NArith List String.\nFrom WZ Require Import Model.Style Corr.StyleCorr.", "case", "mismatches", coqCases, 60)
	res.write(cfg.out)
	return nil
}
