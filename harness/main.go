// wzh: correspondence / oracle harness for the wordZero verification (see /verif/DESIGN.md).
//
//	wzh <property> -seed S -n N -out DIR [-replay FILE] [-tier quick|thorough]
//
// For the property it generates cases from the seed, runs the implementation (the library
// built from /repo's working tree), evaluates the property's oracle on the implementation,
// writes Coq case files for the model-side correspondence check, and DIR/result.json.
package main

import (
	"flag"
	"fmt"
	"os"
	"sort"

	"github.com/zerx-lab/wordZero/pkg/document"
)

type runCfg struct {
	seed   uint64
	n      int
	out    string
	replay string
	tier   string
}

var props = map[string]func(cfg *runCfg) error{}

func main() {
	if len(os.Args) < 2 {
		fmt.Fprintln(os.Stderr, "usage: wzh <property> [flags]")
		os.Exit(2)
	}
	name := os.Args[1]
	fs := flag.NewFlagSet(name, flag.ExitOnError)
	cfg := &runCfg{}
	fs.Uint64Var(&cfg.seed, "seed", 1, "PRNG seed")
	fs.IntVar(&cfg.n, "n", 300, "number of cases")
	fs.StringVar(&cfg.out, "out", "", "output directory")
	fs.StringVar(&cfg.replay, "replay", "", "replay file")
	fs.StringVar(&cfg.tier, "tier", "quick", "tier")
	fs.Parse(os.Args[2:])
	document.SetGlobalLevel(document.LogLevelSilent)
	f, ok := props[name]
	if !ok {
		var ns []string
		for k := range props {
			ns = append(ns, k)
		}
		sort.Strings(ns)
		fmt.Fprintf(os.Stderr, "unknown property %q (have %v)\n", name, ns)
		os.Exit(2)
	}
	if cfg.out == "" {
		fmt.Fprintln(os.Stderr, "-out is required")
		os.Exit(2)
	}
	if err := os.MkdirAll(cfg.out, 0755); err != nil {
		fmt.Fprintln(os.Stderr, err)
		os.Exit(2)
	}
	if err := f(cfg); err != nil {
		fmt.Fprintln(os.Stderr, "wzh:", err)
		os.Exit(2)
	}
}
