// wzh: correspondence / oracle harness for the wordZero verification (see /verif/DESIGN.md).
//
//	wzh <property> -seed S -n N -out DIR [-replay FILE] [-tier quick|thorough]
//
// For the property it generates cases from the seed, runs the implementation (the library
// built from /repo's working tree), evaluates the property's oracle on the implementation,
// writes Coq case files for the model-side correspondence check, and DIR/result.json.
package main

import (
	"flag"
	"fmt"
	"os"
	"os/exec"
	"path/filepath"
	"sort"
	"strconv"
	"time"

	"github.com/zerx-lab/wordZero/pkg/document"
)

type runCfg struct {
	seed   uint64
	n      int
	out    string
	replay string
	tier   string
	only   int // run only this case index (-1 = all); used to isolate a crashing case
}

// properties whose workload may kill the process (stack overflow, runaway recursion): the whole run
// happens in a child process; if the child dies, each case is re-run alone to find the culprit
var isolated = map[string]bool{"C14": true, "C06": true}

var props = map[string]func(cfg *runCfg) error{}

func main() {
	if len(os.Args) < 2 {
		fmt.Fprintln(os.Stderr, "usage: wzh <property> [flags]")
		os.Exit(2)
	}
	name := os.Args[1]
	fs := flag.NewFlagSet(name, flag.ExitOnError)
	cfg := &runCfg{}
	fs.Uint64Var(&cfg.seed, "seed", 1, "PRNG seed")
	fs.IntVar(&cfg.n, "n", 300, "number of cases")
	fs.StringVar(&cfg.out, "out", "", "output directory")
	fs.StringVar(&cfg.replay, "replay", "", "replay file")
	fs.StringVar(&cfg.tier, "tier", "quick", "tier")
	fs.IntVar(&cfg.only, "only", -1, "run only this case")
	fs.Parse(os.Args[2:])
	document.SetGlobalLevel(document.LogLevelSilent)
	f, ok := props[name]
	if !ok {
		var ns []string
		for k := range props {
			ns = append(ns, k)
		}
		sort.Strings(ns)
		fmt.Fprintf(os.Stderr, "unknown property %q (have %v)\n", name, ns)
		os.Exit(2)
	}
	if cfg.out == "" {
		fmt.Fprintln(os.Stderr, "-out is required")
		os.Exit(2)
	}
	if err := os.MkdirAll(cfg.out, 0755); err != nil {
		fmt.Fprintln(os.Stderr, err)
		os.Exit(2)
	}
	if isolated[name] && os.Getenv("WZH_CHILD") == "" {
		if err := runIsolated(name, cfg); err != nil {
			fmt.Fprintln(os.Stderr, "wzh:", err)
			os.Exit(2)
		}
		return
	}
	if err := f(cfg); err != nil {
		fmt.Fprintln(os.Stderr, "wzh:", err)
		os.Exit(2)
	}
}

func childCmd(name string, cfg *runCfg, only int, out string) *exec.Cmd {
	args := []string{name, "-seed", strconv.FormatUint(cfg.seed, 10), "-n", strconv.Itoa(cfg.n), "-out", out, "-tier", cfg.tier, "-only", strconv.Itoa(only)}
	c := exec.Command(os.Args[0], args...)
	c.Env = append(os.Environ(), "WZH_CHILD=1", "GOMAXPROCS=4")
	return c
}

func runWithTimeout(c *exec.Cmd, d time.Duration) (err error, timedOut bool) {
	if err := c.Start(); err != nil {
		return err, false
	}
	done := make(chan error, 1)
	go func() { done <- c.Wait() }()
	select {
	case e := <-done:
		return e, false
	case <-time.After(d):
		c.Process.Kill()
		<-done
		return fmt.Errorf("timeout"), true
	}
}

func runIsolated(name string, cfg *runCfg) error {
	c := childCmd(name, cfg, -1, cfg.out)
	c.Stderr = os.Stderr
	err, _ := runWithTimeout(c, 25*time.Minute)
	if err == nil {
		if _, e := os.Stat(filepath.Join(cfg.out, "result.json")); e == nil {
			return nil
		}
	}
	// the child died: find the first case that kills it
	res := newResult(name, cfg.seed)
	res.Rule = "the workload process died; cases re-run one per process to find the culprit"
	for i := 0; i < cfg.n; i++ {
		sub := filepath.Join(cfg.out, "iso")
		os.MkdirAll(sub, 0755)
		cc := childCmd(name, cfg, i, sub)
		e, timedOut := runWithTimeout(cc, 20*time.Second)
		res.Evaluations++
		if e != nil {
			kind := "no_crash"
			if timedOut {
				kind = "terminates"
			}
			res.OracleFailures = append(res.OracleFailures, OracleFailure{Clause: kind, Detail: fmt.Sprintf("case %d kills the process (%v): re-run with `wzh %s -seed %d -n %d -only %d`", i, e, name, cfg.seed, cfg.n, i), CaseID: i, Case: map[string]interface{}{"seed": cfg.seed, "n": cfg.n, "only": i}})
			break
		}
	}
	res.DistinctNontrivial = res.Evaluations
	res.write(cfg.out)
	return nil
}
