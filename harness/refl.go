package main

// Reflective exercise of an opened document: every exported method of *Document, *Table and *Paragraph is called once
// with arguments made up from a seeded stream (well-formed configurations, handles taken from the document itself).
// A panic counts against C06 only when the same call, with arguments made up from the same stream, does not panic on
// a document that was built through the API and never opened: C06 speaks about what opening hands back, not about
// what the API does with a nil configuration.

import (
	"fmt"
	"os"
	"reflect"
	"sort"
	"strings"

	"github.com/zerx-lab/wordZero/pkg/document"
)

var reflEnums = map[string][]string{
	"HeaderFooterType": {"default", "first", "even", "nope"},
	"PageSize":         {"A4", "Letter", "A3", "Custom", "zz"},
	"PageOrientation":  {"portrait", "landscape", ""},
	"AlignmentType":    {"left", "center", "right", "both", "q"},
	"ListType":         {"bullet", "number", "decimal", "lowerLetter", "upperRoman", "x"},
	"BulletType":       {"•", "○", "■", ""},
	"DocGridType":      {"lines", "linesAndChars", "default", ""},
	"ImageFormat":      {"png", "jpeg", "gif", "bmp"},
}

type reflCtx struct {
	r       *rng
	d       *document.Document
	tmp     string
	hostile bool
	rawxml  bool // the method takes markup by contract (OMML content): its strings are well-formed fragments
	skipped bool // an argument could not be made up: the call is left out
}

// reflRawXML: methods whose string parameter is markup by contract, not text
var reflRawXML = map[string]bool{"AddMathFormula": true, "AddInlineMath": true}

var reflOMML = []string{"<m:r><m:t>x</m:t></m:r>", "", "plain", "<m:f><m:num><m:r><m:t>a &lt; b</m:t></m:r></m:num><m:den><m:r><m:t>2</m:t></m:r></m:den></m:f>", "<m:r/>"}

// reflOpts: limit > 0 calls only that many methods; hostile draws strings from texts that need escaping; only (when
// not nil) restricts the calls to the named ones (the arguments of a call depend on the seed and its name alone)
type reflOpts struct {
	limit   int
	hostile bool
	only    map[string]bool
}

type reflCall struct {
	name string
	ok   bool // no panic, and no error among the results
}

var reflHostile = []string{"a<b&c>d", "\"q\" 'x'", "]]>", "ctrl\x0bchar", "nul\x00", "\xff\xfe", "&amp;", "<w:p>", "</w:t>", "x", "", "ünï 中文", "{{name}}", "<!--", "<?xml", "&#0;", "a < b", "\\frac{a}{b} & c"}

var reflStrings = []string{"x", "", "1", "Heading1", "Normal", "rId1", "<&>\"'", "7", "-1", "TOC", "bm1", "99999999999999999999"}

func (c *reflCtx) value(t reflect.Type, depth int) reflect.Value {
	r := c.r
	switch t.Kind() {
	case reflect.String:
		if vs, ok := reflEnums[t.Name()]; ok {
			return reflect.ValueOf(vs[r.intn(len(vs))]).Convert(t)
		}
		if c.rawxml {
			return reflect.ValueOf(reflOMML[r.intn(len(reflOMML))]).Convert(t)
		}
		if c.hostile && r.chance(75) {
			return reflect.ValueOf(reflHostile[r.intn(len(reflHostile))]).Convert(t)
		}
		return reflect.ValueOf(reflStrings[r.intn(len(reflStrings))]).Convert(t)
	case reflect.Int, reflect.Int64, reflect.Int32:
		return reflect.ValueOf([]int{0, 1, 2, -1, 3, 9, 40}[r.intn(7)]).Convert(t)
	case reflect.Uint, reflect.Uint8, reflect.Uint16, reflect.Uint32, reflect.Uint64:
		return reflect.ValueOf(r.intn(4)).Convert(t)
	case reflect.Float64, reflect.Float32:
		return reflect.ValueOf([]float64{0, 10, 25.4, -1, 210, 0.001}[r.intn(6)]).Convert(t)
	case reflect.Bool:
		return reflect.ValueOf(r.chance(50))
	case reflect.Slice:
		if t.Elem().Kind() == reflect.Uint8 {
			return reflect.ValueOf(imageBytes("png", 2))
		}
		n := r.intn(3)
		s := reflect.MakeSlice(t, 0, n)
		for i := 0; i < n; i++ {
			s = reflect.Append(s, c.value(t.Elem(), depth+1))
		}
		return s
	case reflect.Map:
		return reflect.MakeMap(t)
	case reflect.Interface:
		if t.NumMethod() == 0 {
			return reflect.ValueOf("x").Convert(t)
		}
		c.skipped = true
		return reflect.Zero(t)
	case reflect.Struct:
		v := reflect.New(t).Elem()
		if depth > 3 {
			return v
		}
		for i := 0; i < t.NumField(); i++ {
			if t.Field(i).PkgPath != "" || t.Field(i).Name == "XMLName" {
				continue
			}
			if t.Field(i).Type.Kind() == reflect.Ptr && r.chance(40) {
				continue
			}
			if t.Field(i).Type.Kind() == reflect.Func || t.Field(i).Type.Kind() == reflect.Chan {
				continue
			}
			sub := &reflCtx{r: r, d: c.d, tmp: c.tmp, hostile: c.hostile, rawxml: c.rawxml}
			fv := sub.value(t.Field(i).Type, depth+1)
			if !sub.skipped {
				v.Field(i).Set(fv)
			}
		}
		return v
	case reflect.Ptr:
		switch t.Elem().Name() {
		case "Table":
			if ts := c.d.Body.GetTables(); len(ts) > 0 {
				return reflect.ValueOf(ts[r.intn(len(ts))])
			}
			c.skipped = true
			return reflect.Zero(t)
		case "Paragraph":
			if ps := c.d.Body.GetParagraphs(); len(ps) > 0 {
				return reflect.ValueOf(ps[r.intn(len(ps))])
			}
			c.skipped = true
			return reflect.Zero(t)
		case "Run":
			for _, p := range c.d.Body.GetParagraphs() {
				if len(p.Runs) > 0 {
					return reflect.ValueOf(&p.Runs[0])
				}
			}
			c.skipped = true
			return reflect.Zero(t)
		case "ImageInfo":
			w, h := imgDims(2)
			info, err := c.d.AddImageFromData(imageBytes("png", 2), "r.png", document.ImageFormatPNG, w, h, nil)
			if err != nil || info == nil {
				c.skipped = true
				return reflect.Zero(t)
			}
			return reflect.ValueOf(info)
		case "Document", "StyleManager":
			c.skipped = true
			return reflect.Zero(t)
		}
		if t.Elem().Kind() == reflect.Struct {
			p := reflect.New(t.Elem())
			p.Elem().Set(c.value(t.Elem(), depth+1))
			return p
		}
		p := reflect.New(t.Elem())
		p.Elem().Set(c.value(t.Elem(), depth+1))
		return p
	}
	c.skipped = true
	return reflect.Zero(t)
}

// reflCalls calls the exported methods of the document, of (at most two of) its tables and of (at most two of) its
// paragraphs, in a seeded order, and returns the panics keyed by receiver type and method
func reflCalls(d *document.Document, seed uint64, tmp string, o reflOpts) (panics map[string]panicRec, calls []reflCall) {
	panics = map[string]panicRec{}
	r := newRng(seed)
	type target struct {
		name string
		recv reflect.Value
	}
	var targets []target
	add := func(tn string, recv reflect.Value) {
		var ms []string
		for i := 0; i < recv.NumMethod(); i++ {
			ms = append(ms, recv.Type().Method(i).Name)
		}
		sort.Strings(ms)
		for _, m := range ms {
			if m == "Save" || strings.HasPrefix(m, "MarshalXML") || strings.HasPrefix(m, "UnmarshalXML") {
				continue
			}
			targets = append(targets, target{tn + "." + m, recv})
		}
	}
	add("Document", reflect.ValueOf(d))
	var tables []*document.Table
	var paras []*document.Paragraph
	var ps0 []panicRec
	guard("Body.GetTables", &ps0, func() { tables = d.Body.GetTables() })
	guard("Body.GetParagraphs", &ps0, func() { paras = d.Body.GetParagraphs() })
	for i, t := range tables {
		if i < 2 {
			add(fmt.Sprintf("Table%d", i), reflect.ValueOf(t))
		}
	}
	for i, p := range paras {
		if i < 2 {
			add(fmt.Sprintf("Paragraph%d", i), reflect.ValueOf(p))
		}
	}
	// the order is drawn from the stream; every call forks the stream by its name, so that a call draws the same
	// arguments whatever else the document offers
	order := make([]int, len(targets))
	for i := range order {
		order[i] = i
	}
	for i := len(order) - 1; i > 0; i-- {
		j := r.intn(i + 1)
		order[i], order[j] = order[j], order[i]
	}
	for _, oi := range order {
		tg := targets[oi]
		if o.only != nil && !o.only[tg.name] {
			continue
		}
		if o.limit > 0 && len(calls) >= o.limit {
			break
		}
		mname := tg.name[strings.Index(tg.name, ".")+1:]
		m := tg.recv.MethodByName(mname)
		h := uint64(1469598103934665603)
		for _, ch := range []byte(tg.name) {
			h = (h ^ uint64(ch)) * 1099511628211
		}
		c := &reflCtx{r: newRng(seed ^ h), d: d, tmp: tmp, hostile: o.hostile, rawxml: reflRawXML[mname]}
		var args []reflect.Value
		mt := m.Type()
		var ps []panicRec
		guard(tg.name+" (arguments)", &ps, func() {
			for i := 0; i < mt.NumIn(); i++ {
				if mt.IsVariadic() && i == mt.NumIn()-1 {
					break
				}
				at := mt.In(i)
				args = append(args, c.value(at, 0))
			}
		})
		if c.skipped || len(ps) > 0 {
			continue
		}
		if os.Getenv("WZH_REFL_TRACE") != "" {
			fmt.Fprintln(os.Stderr, "refl:", tg.name)
		}
		okCall := true
		guard(tg.name, &ps, func() {
			for _, res := range m.Call(args) {
				if e, isErr := res.Interface().(error); isErr && e != nil {
					okCall = false
				}
			}
		})
		if len(ps) > 0 {
			panics[tg.name] = ps[0]
			okCall = false
		}
		calls = append(calls, reflCall{tg.name, okCall})
	}
	return panics, calls
}

// apiTwin: a document with paragraphs, runs, tables and an image that never went through the reader
func apiTwin() *document.Document {
	d := document.New()
	p := d.AddParagraph("twin")
	p.AddFormattedText("b", &document.TextFormat{Bold: true})
	d.AddHeadingParagraph("h", 1)
	for i := 0; i < 2; i++ {
		if t, err := d.AddTable(&document.TableConfig{Rows: 3, Cols: 3, Width: 6000}); err == nil {
			_ = t.SetCellText(0, 0, "c")
		}
	}
	d.AddParagraph("last")
	return d
}
