package main

// C18: rendering a document template changes only its placeholders.
//
// Base documents are generated with placeholders whose characters are split over several differently formatted
// runs, in body paragraphs, table cells, nested tables, loop rows and headers; non-text runs (page breaks) and
// paragraph/table/section formatting surround them.  The oracle is a reference substitution on the deep dump of the
// base document, at the granularity of single characters: every character that survives keeps the formatting of
// its run, a substituted value takes the formatting of the run that holds the first character of its placeholder,
// runs without text stay where they are, everything else is compared field by field.

import (
	"archive/zip"
	"bytes"
	"fmt"
	"io"
	"os"
	"path/filepath"
	"reflect"
	"regexp"
	"sort"
	"strings"
	"unicode/utf8"

	"github.com/zerx-lab/wordZero/pkg/document"
)

func init() { props["C18"] = runC18 }

var c18Values = []string{"Alice", "", " padded ", "<b>&\"'", "中文 é", "12.5", "multi word value", "x", "ctl\x0bchar", "tab\there", "]]> &amp; &#65;"}
var c18Texts = []string{"Hello ", ", welcome to ", ". ", " - ", "Total: ", "(", ")", " 中 ", "end"}

type c18Seg struct {
	text string
	ph   bool
}

func c18Format(r *rng) *document.RunProperties {
	rp := &document.RunProperties{}
	any := false
	if r.chance(40) {
		rp.Bold = &document.Bold{}
		any = true
	}
	if r.chance(30) {
		rp.Italic = &document.Italic{}
		any = true
	}
	if r.chance(30) {
		rp.Color = &document.Color{Val: colors[r.intn(3)]}
		any = true
	}
	if r.chance(30) {
		rp.FontSize = &document.FontSize{Val: fmt.Sprint(r.rangeI(16, 48))}
		any = true
	}
	if r.chance(15) {
		rp.Underline = &document.Underline{Val: "single"}
		any = true
	}
	if !any && r.chance(50) {
		return nil
	}
	return rp
}

// genRuns: a paragraph text built from segments, cut into runs at random rune boundaries (also inside placeholders)
func genRuns(r *rng, feats map[string]int, vars []string, allowIf bool) []document.Run {
	var segs []c18Seg
	for i, n := 0, r.rangeI(1, 5); i < n; i++ {
		switch r.intn(5) {
		case 0, 1:
			segs = append(segs, c18Seg{text: "{{" + vars[r.intn(len(vars))] + "}}", ph: true})
		default:
			segs = append(segs, c18Seg{text: c18Texts[r.intn(len(c18Texts))]})
		}
	}
	full := ""
	for _, s := range segs {
		full += s.text
	}
	if allowIf && r.chance(15) {
		// a conditional in a paragraph of one run
		feats["conditional in a paragraph"]++
		c := fmt.Sprintf("c%d", r.intn(3))
		txt := "A{{#if " + c + "}}yes " + full + "{{/if}}Z"
		if r.chance(50) {
			txt = "A{{#if " + c + "}}yes{{else}}no{{/if}}Z"
		}
		if r.chance(50) {
			return []document.Run{{Text: document.Text{Content: txt, Space: "preserve"}, Properties: c18Format(r)}}
		}
		feats["conditional over several runs"]++
		var runs []document.Run
		prev := 0
		for i := range txt {
			if i > 0 && r.chance(15) {
				runs = append(runs, document.Run{Text: document.Text{Content: txt[prev:i], Space: "preserve"}, Properties: c18Format(r)})
				prev = i
			}
		}
		return append(runs, document.Run{Text: document.Text{Content: txt[prev:], Space: "preserve"}, Properties: c18Format(r)})
	}
	// cut positions at rune boundaries
	var cuts []int
	for i := range full {
		if i > 0 && r.chance(22) {
			cuts = append(cuts, i)
		}
	}
	cuts = append(cuts, len(full))
	var runs []document.Run
	prev := 0
	for _, c := range cuts {
		if c == prev {
			continue
		}
		runs = append(runs, document.Run{Text: document.Text{Content: full[prev:c], Space: "preserve"}, Properties: c18Format(r)})
		prev = c
	}
	if len(runs) > 1 {
		feats["paragraph of several runs"]++
	}
	// is some placeholder split?
	pos := 0
	for _, s := range segs {
		if s.ph {
			for _, c := range cuts {
				if c > pos && c < pos+len(s.text) {
					feats["placeholder split across runs"]++
					break
				}
			}
		}
		pos += len(s.text)
	}
	// non-text runs at the ends or between runs whose boundary is a segment boundary
	if r.chance(25) {
		br := document.Run{Break: &document.Break{Type: "page"}}
		feats["page break run"]++
		switch r.intn(2) {
		case 0:
			runs = append(runs, br)
		case 1:
			runs = append([]document.Run{br}, runs...)
		}
	}
	if r.chance(10) {
		runs = append(runs, document.Run{Text: document.Text{Content: ""}, Properties: c18Format(r)})
	}
	return runs
}

func c18StyleParagraph(r *rng, p *document.Paragraph) {
	switch r.intn(6) {
	case 0:
		p.SetAlignment(document.AlignCenter)
	case 1:
		p.SetKeepWithNext(true)
		p.SetOutlineLevel(2)
	case 2:
		p.SetSpacing(&document.SpacingConfig{LineSpacing: 1.5, BeforePara: 6})
	case 3:
		bc := &document.ParagraphBorderConfig{Style: document.BorderStyleSingle, Size: 8, Color: "FF0000", Space: 1}
		p.SetBorder(bc, nil, bc, nil)
	case 4:
		p.SetStyle("Heading2")
	}
}

func c18Table(r *rng, d *document.Document, feats map[string]int, vars []string, depth int, host *document.Table, hr, hc int) {
	nr, nc := r.rangeI(1, 3), r.rangeI(1, 3)
	var t *document.Table
	var err error
	if host == nil {
		t, err = d.AddTable(&document.TableConfig{Rows: nr, Cols: nc, Width: 1500 * nc})
	} else {
		t, err = host.AddNestedTable(hr, hc, &document.TableConfig{Rows: nr, Cols: nc, Width: 900 * nc})
		feats["nested table"]++
	}
	if err != nil {
		return
	}
	for i := 0; i < nr; i++ {
		for j := 0; j < nc; j++ {
			cell := &t.Rows[i].Cells[j]
			cell.Paragraphs = nil
			for k, n := 0, r.rangeI(1, 2); k < n; k++ {
				p := document.Paragraph{Runs: genRuns(r, feats, vars, true)}
				cell.Paragraphs = append(cell.Paragraphs, p)
			}
			if depth < 1 && r.chance(20) {
				c18Table(r, d, feats, vars, depth+1, t, i, j)
			}
		}
	}
	if r.chance(30) {
		t.SetCellShading(0, 0, &document.ShadingConfig{Pattern: document.ShadingPatternClear, BackgroundColor: "EEEEEE"})
	}
	if r.chance(30) && nc >= 2 {
		t.MergeCellsHorizontal(0, 0, 1)
		feats["merged cells"]++
	}
}

func buildC18Doc(seed uint64, feats map[string]int) *document.Document {
	r := newRng(seed)
	vars := []string{"v0", "v1", "v2", "v3", "missing"}
	d := document.New()
	n := r.rangeI(2, 6)
	for i := 0; i < n; i++ {
		switch r.pick([]int{55, 30, 15}) {
		case 0:
			p := d.AddParagraph("")
			p.Runs = genRuns(r, feats, vars, true)
			c18StyleParagraph(r, p)
		case 1:
			c18Table(r, d, feats, vars, 0, nil, 0, 0)
		case 2:
			d.AddPageBreak()
		}
	}
	if r.chance(35) {
		// a table with a loop row between a heading row and a closing row
		feats["table with a loop row"]++
		t, err := d.AddTable(&document.TableConfig{Rows: 3, Cols: 3, Width: 6000})
		if err == nil {
			cut := func(text string) []document.Run {
				var runs []document.Run
				prev := 0
				for i := range text {
					if i > 0 && r.chance(20) {
						runs = append(runs, document.Run{Text: document.Text{Content: text[prev:i], Space: "preserve"}, Properties: c18Format(r)})
						prev = i
					}
				}
				return append(runs, document.Run{Text: document.Text{Content: text[prev:], Space: "preserve"}, Properties: c18Format(r)})
			}
			texts := [3][3]string{{"Name {{v0}}", "Qty", "Note {{missing}}"}, {"{{#each items}}{{name}}", "n={{qty}} {{v1}}", "{{note}}{{/each}}"}, {"Total {{v1}}", "", "end"}}
			for i := 0; i < 3; i++ {
				for j := 0; j < 3; j++ {
					t.Rows[i].Cells[j].Paragraphs = []document.Paragraph{{Runs: cut(texts[i][j])}}
				}
			}
			if r.chance(40) {
				t.SetRowAsHeader(0, true)
				t.SetCellShading(1, 1, &document.ShadingConfig{Pattern: document.ShadingPatternClear, BackgroundColor: "DDDDDD"})
			}
		}
	}
	if r.chance(50) {
		// headers and footers of every kind (default, first page, even pages), through every entry point
		kinds := []document.HeaderFooterType{document.HeaderFooterTypeDefault, document.HeaderFooterTypeFirst, document.HeaderFooterTypeEven}
		for _, k := range kinds {
			if k != document.HeaderFooterTypeDefault && !r.chance(50) {
				continue
			}
			switch r.intn(3) {
			case 0:
				d.AddHeader(k, "Header {{v0}} / {{missing}}")
			case 1:
				d.AddFormattedHeader(k, &document.HeaderFooterConfig{Text: "Header {{v2}} / {{v0}}", Format: &document.TextFormat{Bold: true}, Alignment: document.AlignCenter})
			case 2:
				d.AddHeaderWithPageNumber(k, "Header {{v3}} ", true)
			}
			switch r.intn(3) {
			case 0:
				d.AddFooter(k, "Footer {{v1}}")
			case 1:
				d.AddFormattedFooter(k, &document.HeaderFooterConfig{Text: "Footer {{v1}} {{missing}}", Format: &document.TextFormat{Italic: true}})
			case 2:
				d.AddFooterWithPageNumber(k, "Footer {{v0}} ", true)
			}
			feats["header and footer with placeholders: "+string(k)]++
		}
	}
	if r.chance(40) {
		d.SetPageMargins(15, 20, 25, 30)
		d.SetPageOrientation(document.OrientationLandscape)
	}
	return d
}

type c18Item map[string]string

func c18Data(r *rng) (*document.TemplateData, map[string]string, map[string]bool, map[string][]c18Item) {
	td := document.NewTemplateData()
	vals := map[string]string{}
	lists := map[string][]c18Item{}
	if r.chance(85) {
		var items []c18Item
		var gl []interface{}
		for i, n := 0, r.intn(4); i < n; i++ {
			it := c18Item{"name": fmt.Sprintf("item%d", i), "qty": fmt.Sprint(r.intn(50))}
			gi := map[string]interface{}{"name": it["name"], "qty": it["qty"]}
			if r.chance(60) {
				it["note"] = c18Values[r.intn(len(c18Values))]
				gi["note"] = it["note"]
			}
			if r.chance(30) {
				// a field with the name of a global variable: it stands for the global in this row only
				it["v1"] = "item-v1-" + fmt.Sprint(i)
				gi["v1"] = it["v1"]
			}
			items = append(items, it)
			gl = append(gl, gi)
		}
		lists["items"] = items
		td.SetList("items", gl)
	}
	if r.chance(30) {
		// a global variable with the name of an item field: rows whose item has no such field show the global
		vals["note"] = "global note"
		td.SetVariable("note", "global note")
	}
	for k := 0; k < 4; k++ {
		if r.chance(75) {
			v := c18Values[r.intn(len(c18Values))]
			vals[fmt.Sprintf("v%d", k)] = v
			// the value as a plain string, or as one of the other types data may carry (a named string type, a value that
			// prints itself): the text that is shown is the same
			switch r.intn(5) {
			case 0:
				td.SetVariable(fmt.Sprintf("v%d", k), c18Named(v))
			case 1:
				td.SetVariable(fmt.Sprintf("v%d", k), c18Stringer{v})
			default:
				td.SetVariable(fmt.Sprintf("v%d", k), v)
			}
		}
	}
	conds := map[string]bool{}
	for k := 0; k < 3; k++ {
		if r.chance(70) {
			conds[fmt.Sprintf("c%d", k)] = r.chance(50)
			td.SetCondition(fmt.Sprintf("c%d", k), conds[fmt.Sprintf("c%d", k)])
		}
	}
	return td, vals, conds, lists
}

// ---- canonical form: every text run cut into runs of one character ------------------------------------------

func fieldOf(n *dnode, name string) *dnode {
	for _, f := range n.Fields {
		if f.Name == name {
			return f.Val
		}
	}
	return nil
}
func setField(n *dnode, name string, v *dnode) {
	for i := range n.Fields {
		if n.Fields[i].Name == name {
			n.Fields[i].Val = v
		}
	}
}

// runHasOther: the run carries something besides text
func runHasOther(run *dnode) bool {
	for _, f := range run.Fields {
		if f.Name == "Text" || f.Name == "Properties" {
			continue
		}
		if !f.Val.isZero() && f.Val.Kind != "nil" {
			return true
		}
	}
	return false
}

func runText(run *dnode) string {
	t := fieldOf(run, "Text")
	if t == nil {
		return ""
	}
	c := fieldOf(t, "Content")
	if c == nil {
		return ""
	}
	return c.Str
}

// textNode: a Text value with the given content (xml:space is not compared)
func textNode(ch string) *dnode {
	return &dnode{Kind: "struct", Type: "Text", Fields: []dfield{{Name: "Space", Val: &dnode{Kind: "str"}, Pos: 0}, {Name: "Content", Val: &dnode{Kind: "str", Str: ch}, Pos: 1}}}
}

func unitRun(run *dnode, ch string) *dnode {
	nr := &dnode{Kind: "struct", Type: "Run"}
	for _, f := range run.Fields {
		switch f.Name {
		case "Text":
			nr.Fields = append(nr.Fields, dfield{Name: "Text", Val: textNode(ch), Pos: f.Pos})
		case "Properties":
			nr.Fields = append(nr.Fields, f)
		default:
			nr.Fields = append(nr.Fields, dfield{Name: f.Name, Val: &dnode{Kind: "nil"}, Pos: f.Pos})
		}
	}
	return nr
}

// canonRuns: text runs become one run per character; a run with something else than text is kept (its text, if
// any, in front of it as characters); runs with nothing are dropped
func canonRuns(runs *dnode) *dnode {
	out := &dnode{Kind: "list"}
	for _, run := range runs.Elems {
		txt := runText(run)
		for _, ch := range txt {
			out.Elems = append(out.Elems, unitRun(run, string(ch)))
		}
		if runHasOther(run) {
			o := &dnode{Kind: "struct", Type: "Run"}
			for _, f := range run.Fields {
				if f.Name == "Text" {
					o.Fields = append(o.Fields, dfield{Name: "Text", Val: textNode(""), Pos: f.Pos})
				} else {
					o.Fields = append(o.Fields, f)
				}
			}
			out.Elems = append(out.Elems, o)
		}
	}
	return out
}

func canonTree(n *dnode) {
	switch n.Kind {
	case "ptr":
		canonTree(n.Ptr)
	case "list":
		for _, e := range n.Elems {
			canonTree(e)
		}
	case "struct":
		if n.Type == "Paragraph" {
			if rs := fieldOf(n, "Runs"); rs != nil && rs.Kind == "list" {
				setField(n, "Runs", canonRuns(rs))
			}
		}
		for _, f := range n.Fields {
			canonTree(f.Val)
		}
	}
}

var c18VarRe = regexp.MustCompile(`\{\{(\w+)\}\}`)
var c18IfRe = regexp.MustCompile(`(?s)\{\{#if\s+(\w+)\}\}(.*?)\{\{/if\}\}`)
var c18ElseRe = regexp.MustCompile(`(?s)^(.*?)\{\{else\}\}(.*)$`)

// refParagraph: the reference substitution on the canonical runs of one paragraph
func refParagraph(runs *dnode, vals map[string]string, conds map[string]bool) *dnode {
	// positions of the character runs
	var chars []int // index into runs.Elems for every byte of the text
	var text strings.Builder
	for i, run := range runs.Elems {
		t := runText(run)
		if runHasOther(run) || t == "" {
			continue
		}
		for k := 0; k < len(t); k++ {
			chars = append(chars, i)
		}
		text.WriteString(t)
	}
	full := text.String()
	type repl struct {
		start, end int
		with       string
	}
	var rs []repl
	// conditionals first on the original text (they enclose variables), then variables outside and inside kept parts:
	// the reference works on the text as a whole: conditionals are resolved, then variables
	keep := make([]bool, len(full)) // bytes removed by conditionals
	for i := range keep {
		keep[i] = true
	}
	for _, m := range c18IfRe.FindAllStringSubmatchIndex(full, -1) {
		cond := full[m[2]:m[3]]
		bs, be := m[4], m[5]
		body := full[bs:be]
		ks, ke := bs, be // kept part
		if em := c18ElseRe.FindStringSubmatchIndex(body); em != nil {
			if conds[cond] {
				ks, ke = bs+em[2], bs+em[3]
			} else {
				ks, ke = bs+em[4], bs+em[5]
			}
		} else if !conds[cond] {
			ks, ke = bs, bs
		}
		for i := m[0]; i < m[1]; i++ {
			keep[i] = i >= ks && i < ke
		}
	}
	for _, m := range c18VarRe.FindAllStringSubmatchIndex(full, -1) {
		name := full[m[2]:m[3]]
		if name == "else" {
			continue
		}
		if !keep[m[0]] {
			continue
		}
		if v, ok := vals[name]; ok {
			rs = append(rs, repl{m[0], m[1], v})
		}
	}
	out := &dnode{Kind: "list"}
	ri := 0
	bytePos := 0
	emitted := map[int]bool{}
	for i, run := range runs.Elems {
		t := runText(run)
		if runHasOther(run) || t == "" {
			out.Elems = append(out.Elems, run)
			continue
		}
		_ = i
		// this run is one character (possibly several bytes) starting at bytePos
		start := bytePos
		bytePos += len(t)
		if !keep[start] {
			continue
		}
		for ri < len(rs) && rs[ri].end <= start {
			ri++
		}
		if ri < len(rs) && start >= rs[ri].start && start < rs[ri].end {
			if !emitted[ri] {
				emitted[ri] = true
				first := runs.Elems[chars[rs[ri].start]]
				for _, ch := range rs[ri].with {
					out.Elems = append(out.Elems, unitRun(first, string(ch)))
				}
			}
			continue
		}
		out.Elems = append(out.Elems, run)
	}
	return out
}

var c18EachRe = regexp.MustCompile(`\{\{#each\s+(\w+)\}\}`)

func nodeText(n *dnode, b *strings.Builder) {
	switch n.Kind {
	case "ptr":
		nodeText(n.Ptr, b)
	case "list":
		for _, e := range n.Elems {
			nodeText(e, b)
		}
	case "struct":
		if n.Type == "Run" {
			b.WriteString(runText(n))
			return
		}
		for _, f := range n.Fields {
			nodeText(f.Val, b)
		}
	}
}

func cloneNode(n *dnode) *dnode {
	if n == nil {
		return nil
	}
	c := &dnode{Kind: n.Kind, Type: n.Type, Str: n.Str}
	if n.Ptr != nil {
		c.Ptr = cloneNode(n.Ptr)
	}
	for _, e := range n.Elems {
		c.Elems = append(c.Elems, cloneNode(e))
	}
	for _, f := range n.Fields {
		c.Fields = append(c.Fields, dfield{Name: f.Name, Val: cloneNode(f.Val), Pos: f.Pos, NS: f.NS})
	}
	return c
}

// stripEachMarkers removes the characters of {{#each x}} and {{/each}} from the canonical runs of a paragraph
func stripEachMarkers(runs *dnode) *dnode {
	var text strings.Builder
	for _, run := range runs.Elems {
		if !runHasOther(run) {
			text.WriteString(runText(run))
		}
	}
	full := text.String()
	drop := make([]bool, len(full))
	for _, re := range []*regexp.Regexp{c18EachRe, regexp.MustCompile(`\{\{/each\}\}`)} {
		for _, m := range re.FindAllStringIndex(full, -1) {
			for i := m[0]; i < m[1]; i++ {
				drop[i] = true
			}
		}
	}
	out := &dnode{Kind: "list"}
	pos := 0
	for _, run := range runs.Elems {
		t := runText(run)
		if runHasOther(run) || t == "" {
			out.Elems = append(out.Elems, run)
			continue
		}
		if !drop[pos] {
			out.Elems = append(out.Elems, run)
		}
		pos += len(t)
	}
	return out
}

func mapParagraphs(n *dnode, f func(p *dnode)) {
	switch n.Kind {
	case "ptr":
		mapParagraphs(n.Ptr, f)
	case "list":
		for _, e := range n.Elems {
			mapParagraphs(e, f)
		}
	case "struct":
		if n.Type == "Paragraph" {
			f(n)
			return
		}
		for _, fl := range n.Fields {
			mapParagraphs(fl.Val, f)
		}
	}
}

// refTable: a table one of whose rows holds {{#each list}}: the row is emitted once per item with the item's fields
// (and the global variables) substituted; the other rows are rendered like any other content
func refTable(tbl *dnode, vals map[string]string, conds map[string]bool, lists map[string][]c18Item) bool {
	rows := fieldOf(tbl, "Rows")
	if rows == nil || rows.Kind != "list" {
		return false
	}
	tmpl := -1
	listName := ""
	for i, row := range rows.Elems {
		var b strings.Builder
		nodeText(row, &b)
		if m := c18EachRe.FindStringSubmatch(b.String()); m != nil {
			tmpl, listName = i, m[1]
			break
		}
	}
	if tmpl < 0 {
		return false
	}
	var newRows []*dnode
	for i, row := range rows.Elems {
		if i != tmpl {
			refTreeL(row, vals, conds, lists)
			newRows = append(newRows, row)
			continue
		}
		for _, it := range lists[listName] {
			nr := cloneNode(row)
			merged := map[string]string{}
			for k, v := range vals {
				merged[k] = v
			}
			for k, v := range it {
				merged[k] = v
			}
			mapParagraphs(nr, func(p *dnode) {
				if rs := fieldOf(p, "Runs"); rs != nil && rs.Kind == "list" {
					setField(p, "Runs", refParagraph(stripEachMarkers(rs), merged, conds))
				}
			})
			newRows = append(newRows, nr)
		}
	}
	rows.Elems = newRows
	return true
}

func refTree(n *dnode, vals map[string]string, conds map[string]bool) { refTreeL(n, vals, conds, nil) }

func refTreeL(n *dnode, vals map[string]string, conds map[string]bool, lists map[string][]c18Item) {
	switch n.Kind {
	case "ptr":
		refTreeL(n.Ptr, vals, conds, lists)
	case "list":
		for _, e := range n.Elems {
			refTreeL(e, vals, conds, lists)
		}
	case "struct":
		if n.Type == "Table" && lists != nil && refTable(n, vals, conds, lists) {
			return
		}
		if n.Type == "Paragraph" {
			if rs := fieldOf(n, "Runs"); rs != nil && rs.Kind == "list" {
				setField(n, "Runs", refParagraph(rs, vals, conds))
			}
		}
		for _, f := range n.Fields {
			if !(n.Type == "Paragraph" && f.Name == "Runs") {
				refTreeL(f.Val, vals, conds, lists)
			}
		}
	}
}

func xmlTextOf(data []byte) string {
	n, err := parseXML(data)
	if err != nil {
		return "<<malformed: " + err.Error() + ">>"
	}
	return n.runText()
}

func runC18(cfg *runCfg) error {
	res := newResult("C18", cfg.seed)
	r := newRng(cfg.seed + 1818)
	feats := map[string]int{}
	dist := newDistinct()
	failCount := map[string]int{}
	fail := func(ci int, clause, class, detail string, c interface{}) {
		failCount[class]++
		if failCount[class] <= 5 {
			res.OracleFailures = append(res.OracleFailures, OracleFailure{Clause: clause, Class: class, Detail: detail, CaseID: ci, Case: c})
		}
	}
	for ci := 0; ci < cfg.n; ci++ {
		cr := r.fork()
		seed := cr.next()
		base := buildC18Doc(seed, feats)
		td, vals, conds, lists := c18Data(cr)
		res.Evaluations++
		var out *document.Document
		var err error
		wantDoc := buildC18Doc(seed, map[string]int{})
		if cr.chance(20) {
			// the other way in: the template is a file, loaded and rendered through the TemplateRenderer; the base is what
			// opening that file gives
			feats["rendered through TemplateRenderer from a file"]++
			path := filepath.Join(cfg.out, "c18tpl.docx")
			if e := base.Save(path); e != nil {
				fail(ci, "loads", "load_error", "saving the template: "+e.Error(), nil)
				continue
			}
			tr := document.NewTemplateRenderer()
			tr.SetLogging(false)
			if _, e := tr.LoadTemplateFromFile("d", path); e != nil {
				fail(ci, "loads", "load_error", e.Error(), nil)
				continue
			}
			out, err = tr.RenderTemplate("d", td)
			opened, e1 := document.Open(path)
			opened2, e2 := document.Open(path)
			if e1 != nil || e2 != nil {
				fail(ci, "loads", "load_error", fmt.Sprint(e1, e2), nil)
				continue
			}
			base, wantDoc = opened, opened2
		} else {
			te := document.NewTemplateEngine()
			if _, e := te.LoadTemplateFromDocument("d", base); e != nil {
				fail(ci, "loads", "load_error", e.Error(), nil)
				continue
			}
			out, err = te.RenderTemplateToDocument("d", td)
		}
		if err != nil {
			fail(ci, "renders", "render_error", err.Error(), nil)
			continue
		}
		want := bodyDump(wantDoc)
		canonTree(want)
		refTreeL(want, vals, conds, lists)
		got := bodyDump(out)
		canonTree(got)
		dist.add(want.toSt(false))
		var diffs []string
		diffNodes("", want, got, &diffs, 8)
		if len(diffs) > 0 {
			fail(ci, "only_placeholders_change", "body:"+lossKey(diffs[0]), fmt.Sprintf("seed %d, data %v %v: %s", seed, vals, conds, strings.Join(diffs[:min(3, len(diffs))], " | ")),
				map[string]interface{}{"doc_seed": seed, "vals": vals, "conds": conds})
		}
		// headers and footers: the part stays well-formed, its text is the text with the variables substituted
		// what the accessors say about the rendered document: the page settings and the number of section elements are
		// those of the base
		nSect := func(d *document.Document) int {
			n := 0
			for _, el := range d.Body.Elements {
				if _, ok := el.(*document.SectionProperties); ok {
					n++
				}
			}
			return n
		}
		wantSect, gotSect := nSect(wantDoc), nSect(out)
		wantPS, gotPS := fmt.Sprintf("%+v", *wantDoc.GetPageSettings()), fmt.Sprintf("%+v", *out.GetPageSettings())
		if wantPS != gotPS || (gotSect != wantSect && !(wantSect == 0 && gotSect <= 1)) {
			fail(ci, "only_placeholders_change", "section_settings", fmt.Sprintf("seed %d: the rendered document reports page settings %s over %d section elements, the base %s over %d", seed, gotPS, gotSect, wantPS, wantSect), nil)
		}
		b0, e0 := base.ToBytes()
		b1, e1 := out.ToBytes()
		if e0 != nil || e1 != nil {
			fail(ci, "saves", "save_error", fmt.Sprint(e0, e1), nil)
			continue
		}
		p0, _ := partsOf(b0)
		p1, _ := partsOf(b1)
		for name, data0 := range p0 {
			data1, ok := p1[name]
			if !ok {
				fail(ci, "parts_kept", "part_lost", name+" is missing from the rendered document", nil)
				continue
			}
			if strings.HasPrefix(name, "word/header") || strings.HasPrefix(name, "word/footer") {
				wantText := c18VarRe.ReplaceAllStringFunc(xmlTextOf(data0), func(m string) string {
					if v, ok := vals[m[2:len(m)-2]]; ok {
						return v
					}
					return m
				})
				wantText = xmlCharNorm(wantText)
				if got := xmlTextOf(data1); got != wantText {
					fail(ci, "header_footer_text", "header_footer:"+name, fmt.Sprintf("%s: text %q, expected %q", name, got, wantText), nil)
				}
			} else if name != "word/document.xml" && name != "word/styles.xml" && !reflect.DeepEqual(data0, data1) && !strings.HasSuffix(name, ".rels") && name != "[Content_Types].xml" {
				fail(ci, "parts_kept", "part_changed:"+name, name+" differs between the base document and the rendered one", nil)
			}
		}
		_ = utf8.RuneLen
	}
	// ---- templates with picture placeholders over a base that was opened from a file holding media of its own (media
	// that only a header refers to, or that nothing refers to): the pictures of the rendering get part names of their
	// own, every part of the base is in the rendered document as it was
	for ci := 0; ci < cfg.n/10+5; ci++ {
		cr := r.fork()
		d := document.New()
		d.AddParagraph("Report {{v0}}")
		nph := cr.rangeI(1, 3)
		for k := 0; k < nph; k++ {
			d.AddParagraph(fmt.Sprintf("{{#image pic%d}}", k))
		}
		d.AddHeader(document.HeaderFooterTypeDefault, "Header {{v0}}")
		nOwn := cr.intn(2)
		for k := 0; k < nOwn; k++ {
			w, h := imgDims(20 + k)
			d.AddImageFromData(imageBytes("png", 20+k), "own.png", document.ImageFormatPNG, w, h, nil)
		}
		data, err := d.ToBytes()
		if err != nil {
			fail(-300000-ci, "saves", "save_error", err.Error(), nil)
			continue
		}
		// media the body does not refer to, numbered after the body's own pictures
		extra := map[string][]byte{}
		for k, n := 0, cr.rangeI(1, 2); k < n; k++ {
			extra[fmt.Sprintf("word/media/image%d.png", nOwn+1+k)] = imageBytes("png", 30+k)
		}
		if cr.chance(50) {
			for name := range extra {
				extra["word/_rels/header1.xml.rels"] = []byte(`<?xml version="1.0" encoding="UTF-8" standalone="yes"?><Relationships xmlns="http://schemas.openxmlformats.org/package/2006/relationships"><Relationship Id="rId1" Type="http://schemas.openxmlformats.org/officeDocument/2006/relationships/image" Target="media/` + strings.TrimPrefix(name, "word/media/") + `"/></Relationships>`)
				break
			}
		}
		data = addZipParts(data, extra)
		feats["picture placeholders over a base with media the body does not refer to"]++
		path := filepath.Join(cfg.out, "c18pic.docx")
		if e := os.WriteFile(path, data, 0644); e != nil {
			continue
		}
		tr := document.NewTemplateRenderer()
		tr.SetLogging(false)
		if _, e := tr.LoadTemplateFromFile("p", path); e != nil {
			fail(-300000-ci, "loads", "load_error", e.Error(), nil)
			continue
		}
		td := document.NewTemplateData()
		td.SetVariable("v0", "x")
		for k := 0; k < nph; k++ {
			td.SetImageFromData(fmt.Sprintf("pic%d", k), imageBytes("png", 40+k), nil)
		}
		out, err := tr.RenderTemplate("p", td)
		res.Evaluations++
		if err != nil || out == nil {
			fail(-300000-ci, "renders", "render_error", fmt.Sprint(err), nil)
			continue
		}
		b1, e1 := out.ToBytes()
		if e1 != nil {
			fail(-300000-ci, "saves", "save_error", e1.Error(), nil)
			continue
		}
		p0, _ := partsOf(data)
		p1, _ := partsOf(b1)
		for name, data0 := range p0 {
			if !strings.HasPrefix(name, "word/media/") && name != "word/_rels/header1.xml.rels" {
				continue
			}
			if data1, ok := p1[name]; !ok {
				fail(-300000-ci, "parts_kept", "part_lost", name+" is missing from the rendered document", nil)
			} else if !bytes.Equal(data0, data1) {
				fail(-300000-ci, "parts_kept", "part_changed:media", name+" of the base document was overwritten by the rendering", nil)
			}
		}
		nMedia := 0
		for name := range p1 {
			if strings.HasPrefix(name, "word/media/") {
				nMedia++
			}
		}
		nExtra := 0
		for name := range extra {
			if strings.HasPrefix(name, "word/media/") {
				nExtra++
			}
		}
		if want := nOwn + nExtra + nph; nMedia < want {
			fail(-300000-ci, "parts_kept", "picture_parts", fmt.Sprintf("the rendered document holds %d media parts, the base had its own and %d pictures were placed (expected at least %d)", nMedia, nph, want), nil)
		}
	}
	// ---- single paragraphs for the correspondence with Model/DocTemplate.v
	var cases []string
	vars := []string{"v0", "v1", "v2", "v3", "missing"}
	for ci := 0; ci < cfg.n*2; ci++ {
		cr := r.fork()
		d := document.New()
		p := d.AddParagraph("")
		p.Runs = genRuns(cr, feats, vars, true)
		td, vals, conds, _ := c18Data(cr)
		atoms := map[string]int{}
		atomOf := func(run *document.Run) int {
			k := dumpValue(reflect.ValueOf(run.Properties)).toSt(false)
			if _, ok := atoms[k]; !ok {
				atoms[k] = len(atoms) + 1
			}
			return atoms[k]
		}
		hasOther := func(run *document.Run) bool {
			return run.Break != nil || run.Drawing != nil || run.FieldChar != nil || run.InstrText != nil
		}
		var runsCoq []string
		for i := range p.Runs {
			run := &p.Runs[i]
			runsCoq = append(runsCoq, fmt.Sprintf("mkRun %d %s %s", atomOf(run), cBytes([]byte(run.Text.Content)), cBool(hasOther(run))))
		}
		te := document.NewTemplateEngine()
		te.LoadTemplateFromDocument("p", d)
		out, err := te.RenderTemplateToDocument("p", td)
		res.Evaluations++
		if err != nil {
			fail(ci, "renders", "render_error", err.Error(), nil)
			continue
		}
		paras := out.Body.GetParagraphs()
		if len(paras) != 1 {
			fail(ci, "one_paragraph", "paragraph_count", fmt.Sprintf("%d paragraphs after rendering one", len(paras)), nil)
			continue
		}
		var units []string
		for i := range paras[0].Runs {
			run := &paras[0].Runs[i]
			a := atomOf(run)
			for _, b := range []byte(run.Text.Content) {
				units = append(units, fmt.Sprintf("UB %d %d", b, a))
			}
			if run.Text.Content == "" || hasOther(run) {
				units = append(units, fmt.Sprintf("UA %d %s", a, cBool(hasOther(run))))
			}
		}
		var cs, vs []string
		for k, v := range conds {
			cs = append(cs, fmt.Sprintf("(%s, %s)", cBytes([]byte(k)), cBool(v)))
		}
		for k, v := range vals {
			vs = append(vs, fmt.Sprintf("(%s, %s)", cBytes([]byte(k)), cBytes([]byte(v))))
		}
		sort.Strings(cs)
		sort.Strings(vs)
		cases = append(cases, fmt.Sprintf("mkCase [%s]\n  [%s] [%s]\n  [%s]", strings.Join(runsCoq, "; "), strings.Join(cs, "; "), strings.Join(vs, "; "), strings.Join(units, "; ")))
	}
	// ---- image placeholders
	for ci := 0; ci < cfg.n/3; ci++ {
		cr := r.fork()
		d := document.New()
		nPh, nMissing := 0, 0
		var texts []string
		for k, n := 0, cr.rangeI(2, 7); k < n; k++ {
			switch cr.intn(4) {
			case 0:
				d.AddParagraph("{{#image logo}}")
				nPh++
			case 1:
				d.AddParagraph(fmt.Sprintf("before%d {{#image pic}} after%d", k, k))
				texts = append(texts, fmt.Sprintf("before%d ", k), fmt.Sprintf(" after%d", k))
				nPh++
			case 2:
				d.AddParagraph("{{#image nodata}}")
				nMissing++
			default:
				t := fmt.Sprintf("plain %d {{v0}}", k)
				d.AddParagraph(t)
				texts = append(texts, t)
			}
		}
		td := document.NewTemplateData()
		td.SetImageFromData("logo", imageBytes("png", 3), nil)
		td.SetImageFromData("pic", imageBytes("png", 5), nil)
		te := document.NewTemplateEngine()
		te.LoadTemplateFromDocument("i", d)
		out, err := te.RenderTemplateToDocument("i", td)
		res.Evaluations++
		feats["document with image placeholders"]++
		if err != nil {
			fail(ci, "renders", "render_error", err.Error(), nil)
			continue
		}
		drawings := 0
		var gotTexts []string
		leftover := 0
		for _, p := range out.Body.GetParagraphs() {
			t := ""
			for i := range p.Runs {
				if p.Runs[i].Drawing != nil {
					drawings++
				}
				t += p.Runs[i].Text.Content
			}
			if strings.Contains(t, "{{#image logo}}") || strings.Contains(t, "{{#image pic}}") || strings.Contains(t, "[IMAGE:") {
				leftover++
			}
			if t != "" && !strings.Contains(t, "nodata") {
				gotTexts = append(gotTexts, t)
			}
		}
		if drawings != nPh || leftover != 0 {
			fail(ci, "images_replaced", "image_placeholders", fmt.Sprintf("%d placeholders with data, %d pictures in the rendered body, %d placeholders left", nPh, drawings, leftover), nil)
		}
		if strings.Join(gotTexts, "|") != strings.Join(texts, "|") {
			fail(ci, "other_text_kept", "image_text", fmt.Sprintf("texts around the pictures: %q, expected %q", gotTexts, texts), nil)
		}
		if b, err := out.ToBytes(); err == nil {
			if v, err := readPackage(b); err == nil {
				if errs := v.checkC02(); len(errs) > 0 {
					fail(ci, "pictures_resolve", "image_rels", strings.Join(errs, "; "), nil)
				}
			}
		}
	}
	res.DistinctNontrivial = dist.n()
	res.Histogram = feats
	res.Shards = writeShardsPlain(cfg.out, "c18cases", "From Coq Require Import List NArith Bool.\nFrom WZ Require Import Model.DocTemplate Corr.DocTemplateCorr.\nImport ListNotations.\n", "case", "mismatches", cases, 150)
	res.write(cfg.out)
	return nil
}

// addZipParts: the package with the given parts added (or replaced)
func addZipParts(data []byte, extra map[string][]byte) []byte {
	zr, err := zip.NewReader(bytes.NewReader(data), int64(len(data)))
	if err != nil {
		return data
	}
	var out bytes.Buffer
	zw := zip.NewWriter(&out)
	for _, f := range zr.File {
		if _, repl := extra[f.Name]; repl {
			continue
		}
		rc, err := f.Open()
		if err != nil {
			return data
		}
		b, _ := io.ReadAll(rc)
		rc.Close()
		if f.Name == "[Content_Types].xml" && !bytes.Contains(b, []byte(`Extension="png"`)) {
			b = bytes.Replace(b, []byte("</Types>"), []byte(`<Default Extension="png" ContentType="image/png"/></Types>`), 1)
		}
		w, _ := zw.Create(f.Name)
		w.Write(b)
	}
	var names []string
	for n := range extra {
		names = append(names, n)
	}
	sort.Strings(names)
	for _, n := range names {
		w, _ := zw.Create(n)
		w.Write(extra[n])
	}
	zw.Close()
	return out.Bytes()
}

type c18Named string

type c18Stringer struct{ s string }

func (c c18Stringer) String() string { return c.s }
