module wzh

go 1.19

require github.com/zerx-lab/wordZero v0.0.0

replace github.com/zerx-lab/wordZero => /repo
