module wzh

go 1.19

require (
	github.com/litao91/goldmark-mathjax v0.0.0-20210217064022-a43cf739a50f
	github.com/yuin/goldmark v1.7.8
	github.com/zerx-lab/wordZero v0.0.0
)

replace github.com/zerx-lab/wordZero => /repo
