package main

// Dump of the goldmark syntax tree in the notation of coq/Model/MdRender.v, and of a converted document as the list
// of paragraphs and tables the model speaks about.

import (
	"bufio"
	"bytes"
	"fmt"
	stdhtml "html"
	"strings"

	mathjax "github.com/litao91/goldmark-mathjax"
	"github.com/yuin/goldmark"
	"github.com/yuin/goldmark/ast"
	"github.com/yuin/goldmark/extension"
	extast "github.com/yuin/goldmark/extension/ast"
	"github.com/yuin/goldmark/parser"
	goldmarkhtml "github.com/yuin/goldmark/renderer/html"
	"github.com/yuin/goldmark/text"
	"github.com/zerx-lab/wordZero/pkg/document"
	"github.com/zerx-lab/wordZero/pkg/markdown"
)

// parseLikeConverter configures goldmark the way markdown.NewConverter does
func parseLikeConverter(src []byte, o *markdown.ConvertOptions) ast.Node {
	var exts []goldmark.Extender
	if o.EnableGFM {
		exts = append(exts, extension.GFM)
	}
	if o.EnableFootnotes {
		exts = append(exts, extension.Footnote)
	}
	if o.EnableMath {
		exts = append(exts, mathjax.NewMathJax(mathjax.WithInlineDelim("$", "$"), mathjax.WithBlockDelim("$$", "$$")))
	}
	md := goldmark.New(goldmark.WithExtensions(exts...), goldmark.WithParserOptions(parser.WithAutoHeadingID()))
	return md.Parser().Parse(text.NewReader(src))
}

type mdDumper struct {
	src     []byte
	hasMath bool
}

func (d *mdDumper) textValue(n *ast.Text) string {
	v := n.Segment.Value(d.src)
	if n.IsRaw() {
		return string(v)
	}
	var buf bytes.Buffer
	w := bufio.NewWriter(&buf)
	goldmarkhtml.DefaultWriter.Write(w, v)
	w.Flush()
	return stdhtml.UnescapeString(buf.String())
}

func (d *mdDumper) inlines(n ast.Node) string {
	var xs []string
	for c := n.FirstChild(); c != nil; c = c.NextSibling() {
		xs = append(xs, d.inline(c))
	}
	return "[" + strings.Join(xs, "; ") + "]"
}

func (d *mdDumper) inline(c ast.Node) string {
	switch n := c.(type) {
	case *ast.Text:
		return fmt.Sprintf("IText %s %s", cStrRaw(d.textValue(n)), cBool(n.SoftLineBreak()))
	case *ast.String:
		return "IStr " + cStrRaw(string(n.Value))
	case *ast.Emphasis:
		return fmt.Sprintf("IEmph %d %s", n.Level, d.inlines(n))
	case *ast.CodeSpan:
		return "ICode " + d.inlines(n)
	case *ast.Link:
		return "ILink " + d.inlines(n)
	case *ast.AutoLink:
		return "IAuto " + cStrRaw(string(n.Label(d.src)))
	case *ast.Image:
		return fmt.Sprintf("IImage %s %s", d.inlines(n), cStrRaw(string(n.Destination)))
	case *extast.Strikethrough:
		return "IStrike " + d.inlines(n)
	case *ast.RawHTML:
		return "IRaw"
	}
	if c.Kind() == mathjax.KindInlineMath {
		d.hasMath = true
		return "IMath \"\""
	}
	return "IOther " + d.inlines(c)
}

func (d *mdDumper) blocks(n ast.Node) string {
	var xs []string
	for c := n.FirstChild(); c != nil; c = c.NextSibling() {
		xs = append(xs, d.block(c))
	}
	return "[" + strings.Join(xs, ";\n  ") + "]"
}

func alignCode(a extast.Alignment) int {
	switch a {
	case extast.AlignLeft:
		return 1
	case extast.AlignCenter:
		return 2
	case extast.AlignRight:
		return 3
	}
	return 0
}

func (d *mdDumper) block(c ast.Node) string {
	switch n := c.(type) {
	case *ast.Heading:
		return fmt.Sprintf("BHeading %d %s", n.Level, d.inlines(n))
	case *ast.Paragraph:
		return "BPara " + d.inlines(n)
	case *ast.TextBlock:
		return "BText " + d.inlines(n)
	case *ast.List:
		var items []string
		for it := n.FirstChild(); it != nil; it = it.NextSibling() {
			items = append(items, d.blocks(it))
		}
		return "BList [" + strings.Join(items, "; ") + "]"
	case *ast.Blockquote:
		return "BQuote " + d.blocks(n)
	case *ast.FencedCodeBlock, *ast.CodeBlock:
		var ls []string
		for i := 0; i < c.Lines().Len(); i++ {
			seg := c.Lines().At(i)
			ls = append(ls, cStrRaw(strings.TrimRight(string(seg.Value(d.src)), "\r\n")))
		}
		return "BCode [" + strings.Join(ls, "; ") + "]"
	case *ast.ThematicBreak:
		return "BHr"
	case *extast.Table:
		var header, rows []string
		aligns := "[]"
		first := true
		for r := n.FirstChild(); r != nil; r = r.NextSibling() {
			var cells []string
			for cell := r.FirstChild(); cell != nil; cell = cell.NextSibling() {
				if _, ok := cell.(*extast.TableCell); ok {
					cells = append(cells, d.inlines(cell))
				}
			}
			switch rr := r.(type) {
			case *extast.TableHeader:
				header = cells
			case *extast.TableRow:
				if first {
					var as []string
					for _, a := range rr.Alignments {
						as = append(as, fmt.Sprint(alignCode(a)))
					}
					aligns = "[" + strings.Join(as, "; ") + "]"
					first = false
				}
				rows = append(rows, "(["+strings.Join(cells, "; ")+"], [])")
			}
		}
		return fmt.Sprintf("BTable [%s] [%s] %s", strings.Join(header, "; "), strings.Join(rows, "; "), aligns)
	}
	if c.Kind() == mathjax.KindMathBlock {
		d.hasMath = true
		return "BMath \"\""
	}
	if c.Type() == ast.TypeInline {
		// an inline node where a block is expected cannot happen below the document and list items
		return "BOther []"
	}
	return "BOther " + d.blocks(c)
}

// docBlocksCoq: the paragraphs and tables of a converted document
func docBlocksCoq(doc *document.Document) string {
	var xs []string
	for _, e := range doc.Body.Elements {
		switch x := e.(type) {
		case *document.Paragraph:
			style := ""
			hr := false
			if x.Properties != nil {
				if x.Properties.ParagraphStyle != nil {
					style = x.Properties.ParagraphStyle.Val
				}
				hr = x.Properties.ParagraphBorder != nil
			}
			var runs []string
			for i := range x.Runs {
				rp := x.Runs[i].Properties
				f := [6]bool{}
				if rp != nil {
					f[0] = rp.Bold != nil
					f[1] = rp.Italic != nil
					f[2] = rp.Strike != nil
					f[3] = rp.FontFamily != nil && rp.FontFamily.ASCII == "Consolas"
					f[4] = rp.Color != nil && rp.Color.Val == "0000FF"
					f[5] = rp.FontFamily != nil && rp.FontFamily.ASCII == "Cambria Math"
				}
				runs = append(runs, fmt.Sprintf("(%s, mkFmt %s %s %s %s %s %s)", cStrRaw(x.Runs[i].Text.Content), cBool(f[0]), cBool(f[1]), cBool(f[2]), cBool(f[3]), cBool(f[4]), cBool(f[5])))
			}
			xs = append(xs, fmt.Sprintf("DPara %s %s [%s]", cStrRaw(style), cBool(hr), strings.Join(runs, "; ")))
		case *document.Table:
			var rows, als []string
			for ri := range x.Rows {
				var cs, as []string
				for ci := range x.Rows[ri].Cells {
					t, _ := x.GetCellText(ri, ci)
					cs = append(cs, cStrRaw(t))
					a := 0
					cell := &x.Rows[ri].Cells[ci]
					if len(cell.Paragraphs) > 0 && cell.Paragraphs[0].Properties != nil && cell.Paragraphs[0].Properties.Justification != nil {
						switch cell.Paragraphs[0].Properties.Justification.Val {
						case "left":
							a = 1
						case "center":
							a = 2
						case "right":
							a = 3
						}
					}
					as = append(as, fmt.Sprint(a))
				}
				rows = append(rows, "["+strings.Join(cs, "; ")+"]")
				als = append(als, "["+strings.Join(as, "; ")+"]")
			}
			xs = append(xs, fmt.Sprintf("DTable [%s] [%s]", strings.Join(rows, "; "), strings.Join(als, "; ")))
		}
	}
	return "[" + strings.Join(xs, ";\n  ") + "]"
}
