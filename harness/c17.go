package main

// C17: template rendering is pure, repeatable and safe to use concurrently.
//
// Sequential stream: histories of load / render / remove / clear-cache calls on one engine, with inheritance chains
// and siblings sharing a base.  Oracle: every render equals the render of a fresh engine that loaded only the
// templates the rendered one was defined from; a second render gives the same; the data are not modified.
// Document stream: templates loaded from a document; the base document (deep dump) is the same before and after any
// number of renders, and every render equals the render of a freshly built base document.
// Concurrent stream: threads with their own template names on one engine, in goroutines, under the race detector
// when the race build of the harness is available; every thread must see what it sees alone.
//
// Correspondence (Corr/EngineCorr.v): the history goes to Model.Engine.run; the model's render results are compared
// with the engine's.

import (
	"bytes"
	"encoding/json"
	"fmt"
	"io"
	"os"
	"os/exec"
	"path/filepath"
	"reflect"
	"regexp"
	"strconv"
	"strings"
	"sync"

	"github.com/zerx-lab/wordZero/pkg/document"
)

func init() {
	props["C17"] = runC17
	props["C17child"] = runC17Child
}

type engOp struct {
	Kind    string `json:"kind"` // load render remove clear
	Name    string `json:"name"`
	Content string `json:"content,omitempty"`
	FromDoc bool   `json:"from_doc,omitempty"`
	data    *tdata
	DataIdx int `json:"data_idx"`
}

var tplNames = []string{"b0", "b1", "c0", "c1", "c2", "g0", "p0"}
var blockNames = []string{"a", "b", "c"}

func flatText(g *tgen) string {
	var b strings.Builder
	printNodes(g.flat(false, false), &b)
	s := b.String()
	if strings.Contains(s, "\"") {
		s = strings.ReplaceAll(s, "\"", "'")
	}
	return s
}

func genBaseText(g *tgen) string {
	var b strings.Builder
	n := g.r.rangeI(1, 3)
	for i := 0; i < n; i++ {
		b.WriteString(flatText(g))
		bn := blockNames[g.r.intn(len(blockNames))]
		b.WriteString("{{#block \"" + bn + "\"}}" + "D" + bn + flatText(g) + "{{/block}}")
	}
	if g.r.chance(50) {
		var t strings.Builder
		printNodes(g.top(), &t)
		b.WriteString(t.String())
	}
	return b.String()
}

func genDerivedText(g *tgen, base string) string {
	var b strings.Builder
	if g.r.chance(30) {
		b.WriteString("ignored ")
	}
	b.WriteString("{{extends \"" + base + "\"}}")
	for _, bn := range append(blockNames, "zz") {
		if g.r.chance(45) {
			body := "O" + bn + flatText(g)
			switch g.r.intn(8) {
			case 0:
				body = "" // the override blanks the block out
			case 1:
				body = " "
			}
			b.WriteString("\n{{#block \"" + bn + "\"}}" + body + "{{/block}}")
		}
	}
	return b.String()
}

func genEngineOps(r *rng, feats map[string]int, names []string, n int, datas *[]*tdata, allowClear bool, shared ...string) []engOp {
	var ops []engOp
	g := &tgen{r: r, feats: map[string]int{}}
	loaded := []string{}
	for i := 0; i < n; i++ {
		switch r.pick([]int{20, 25, 35, 8, 3, 9}) {
		case 0: // base or plain
			nm := names[r.intn(len(names))]
			o := engOp{Kind: "load", Name: nm, Content: genBaseText(g)}
			if r.chance(30) {
				// loaded from a document: the content is what the engine reads off the paragraphs (every line ended)
				o.FromDoc = true
				o.Content += "\n"
				feats["load base from a document"]++
			}
			ops = append(ops, o)
			loaded = append(loaded, nm)
			feats["load base"]++
		case 1: // derived
			base := names[r.intn(len(names))]
			if len(loaded) > 0 && r.chance(80) {
				base = loaded[r.intn(len(loaded))]
			}
			if len(shared) > 0 && r.chance(50) {
				base = shared[r.intn(len(shared))]
				feats["load derived from a shared base"]++
			}
			nm := names[r.intn(len(names))]
			ops = append(ops, engOp{Kind: "load", Name: nm, Content: genDerivedText(g, base)})
			loaded = append(loaded, nm)
			feats["load derived"]++
			if nm == base {
				feats["load derived from its own name"]++
			}
		case 2:
			nm := names[r.intn(len(names))]
			if len(loaded) > 0 && r.chance(85) {
				nm = loaded[r.intn(len(loaded))]
			}
			if len(shared) > 0 && r.chance(30) {
				nm = shared[r.intn(len(shared))]
				feats["render a shared base"]++
			}
			d := g.data()
			*datas = append(*datas, d)
			ops = append(ops, engOp{Kind: "render", Name: nm, data: d, DataIdx: len(*datas) - 1})
			feats["render"]++
		case 3:
			ops = append(ops, engOp{Kind: "remove", Name: names[r.intn(len(names))]})
			feats["remove"]++
		case 4:
			if allowClear {
				ops = append(ops, engOp{Kind: "clear"})
				feats["clear cache"]++
			}
		case 5: // render the same template again right away
			if len(ops) > 0 && ops[len(ops)-1].Kind == "render" {
				ops = append(ops, ops[len(ops)-1])
				feats["render again"]++
			}
		}
	}
	return ops
}

// docOfLines: the document a template is loaded from - one paragraph per line of the content
func docOfLines(content string) *document.Document {
	d := document.New()
	for _, line := range strings.Split(strings.TrimSuffix(content, "\n"), "\n") {
		d.AddParagraph(line)
	}
	return d
}

// renderText: the text RenderToDocument appends; for a template loaded from a document the result begins with a copy
// of that document, which must show the document's paragraphs as they were loaded ("base-doc-changed" otherwise)
func renderText(te *document.TemplateEngine, name string, d *tdata) (string, bool) {
	var baseTexts []string
	if t, err := te.GetTemplate(name); err == nil && t != nil && t.BaseDoc != nil {
		baseTexts = docParagraphTexts(t.BaseDoc)
	}
	doc, err := te.RenderToDocument(name, d.toGo())
	if err != nil {
		return "", false
	}
	texts := docParagraphTexts(doc)
	if len(baseTexts) > 0 {
		if len(texts) < len(baseTexts) || strings.Join(texts[:len(baseTexts)], "\n") != strings.Join(baseTexts, "\n") {
			return "base-doc-changed: " + strings.Join(texts, "\n"), true
		}
		texts = texts[len(baseTexts):]
	}
	return strings.Join(texts, "\n"), true
}

func applyEngOp(te *document.TemplateEngine, o engOp) (string, bool, bool) {
	switch o.Kind {
	case "load":
		if o.FromDoc {
			te.LoadTemplateFromDocument(o.Name, docOfLines(o.Content))
		} else {
			te.LoadTemplate(o.Name, o.Content)
		}
	case "remove":
		te.RemoveTemplate(o.Name)
	case "clear":
		te.ClearCache()
	case "render":
		s, ok := renderText(te, o.Name, o.data)
		return s, ok, true
	}
	return "", false, false
}

func engOpCoq(o engOp) string {
	switch o.Kind {
	case "load":
		return fmt.Sprintf("OLoad %s %s", cStrRaw(o.Name), cStrRaw(o.Content))
	case "remove":
		return "ORemove " + cStrRaw(o.Name)
	case "clear":
		return "OClear"
	}
	return fmt.Sprintf("ORender %s (%s)", cStrRaw(o.Name), o.data.coq())
}

var extendsRe = regexp.MustCompile(`\{\{extends\s+"([^"]+)"\}\}`)

// ---- document templates ---------------------------------------------------------------------------

func buildTemplateDoc(seed uint64) *document.Document {
	r := newRng(seed)
	d := document.New()
	d.AddParagraph("Title {{title}}")
	p := d.AddParagraph("Dear ")
	p.AddFormattedText("{{na", &document.TextFormat{Bold: true})
	p.AddFormattedText("me}}", &document.TextFormat{Italic: true})
	p.AddFormattedText(", welcome.", nil)
	t, _ := d.AddTable(&document.TableConfig{Rows: 2, Cols: 2, Width: 6000})
	t.SetCellText(0, 0, "{{title}}")
	t.SetCellText(0, 1, "static")
	t.SetCellText(1, 0, "{{#if show}}shown{{/if}}")
	if nt, err := t.AddNestedTable(1, 1, &document.TableConfig{Rows: 1, Cols: 2, Width: 2000}); err == nil {
		nt.SetCellText(0, 0, "nested {{name}}")
		nt.SetCellText(0, 1, "{{other}}")
	}
	if r.chance(50) {
		t2, _ := d.AddTable(&document.TableConfig{Rows: 2, Cols: 2, Width: 6000})
		t2.SetCellText(0, 0, "{{#each items}}{{name}}")
		t2.SetCellText(0, 1, "{{qty}}{{/each}}")
	}
	d.AddParagraph("Bye {{name}} {{missing}}")
	if r.chance(60) {
		d.AddParagraph("{{#image logo}}")
		if r.chance(40) {
			d.AddParagraph("{{#image photo}}")
		}
	}
	d.AddHeader(document.HeaderFooterTypeDefault, "Header {{title}}")
	if r.chance(35) {
		// a base document as another producer writes it and Open returns it: it holds pictures of its own, one of them
		// placed twice (one media part, two drawings with consecutive ids - more drawing ids than media parts)
		w, h := imgDims(3)
		if _, err := d.AddImageFromData(imageBytes("png", 3), "own.png", document.ImageFormatPNG, w, h, nil); err == nil && r.chance(70) {
			for _, el := range d.Body.Elements {
				p0, ok := el.(*document.Paragraph)
				if !ok {
					continue
				}
				for _, run := range p0.Runs {
					if run.Drawing == nil || run.Drawing.Inline == nil || run.Drawing.Inline.DocPr == nil {
						continue
					}
					dr, in, pr := *run.Drawing, *run.Drawing.Inline, *run.Drawing.Inline.DocPr
					if n, err := strconv.Atoi(pr.ID); err == nil {
						pr.ID = strconv.Itoa(n + 1)
					}
					in.DocPr = &pr
					dr.Inline = &in
					d.Body.Elements = append(d.Body.Elements, &document.Paragraph{Runs: []document.Run{{Drawing: &dr}}})
					break
				}
			}
		}
		if data, err := d.ToBytes(); err == nil {
			if d2, err := document.OpenFromMemory(io.NopCloser(bytes.NewReader(data))); err == nil && d2 != nil {
				return d2
			}
		}
	}
	return d
}

// docTemplateData: the data of a rendering, a function of the seed (equal seeds give equal, distinct objects); pictures
// are given as bytes or as the path of a file under dir
func docTemplateData(seed uint64, dir string) *document.TemplateData {
	r := newRng(seed)
	td := document.NewTemplateData()
	for i, name := range []string{"logo", "photo"} {
		switch r.intn(4) {
		case 3:
			// with or without a description and a title, with or without a configuration of its own
			var cfg *document.ImageConfig
			if r.chance(70) {
				cfg = oneDimension(r)
			}
			alt, title := "", ""
			if r.chance(50) {
				alt = fmt.Sprintf("alt %d", r.intn(50))
			}
			if r.chance(50) {
				title = fmt.Sprintf("title %d", r.intn(50))
			}
			td.SetImageWithDetails(name, "", imageBytes("png", 4+i), cfg, alt, title)
		case 0:
			var cfg *document.ImageConfig
			if r.chance(35) {
				cfg = oneDimension(r)
			}
			td.SetImageFromData(name, imageBytes("png", 4+i), cfg)
		case 1:
			fn := filepath.Join(dir, fmt.Sprintf("c17img%d.png", 4+i))
			os.WriteFile(fn, imageBytes("png", 4+i), 0644)
			td.SetImage(name, fn, nil)
		}
	}
	td.SetVariable("title", fmt.Sprintf("T%d", r.intn(100)))
	td.SetVariable("name", fmt.Sprintf("N%d <&>", r.intn(100)))
	td.SetVariable("other", fmt.Sprintf("O%d", r.intn(100)))
	td.SetCondition("show", r.chance(50))
	var items []interface{}
	stringMaps := r.chance(25) // items of the other map type data may carry
	for i, n := 0, r.intn(3); i < n; i++ {
		if stringMaps {
			items = append(items, map[string]string{"name": fmt.Sprintf("i%d", i), "qty": fmt.Sprint(i)})
			continue
		}
		items = append(items, map[string]interface{}{"name": fmt.Sprintf("i%d", i), "qty": i})
	}
	td.SetList("items", items)
	return td
}

func docDumpString(d *document.Document) string {
	return bodyDump(d).toSt(false)
}

// ---- concurrent plans (run in a child process, under the race detector when available) -----------------

type concPlan struct {
	Threads [][]engOp `json:"threads"`
	Datas   []string  `json:"-"`
}

type c17ChildIn struct {
	Seed  uint64 `json:"seed"`
	Plans int    `json:"plans"`
}
type c17ChildOut struct {
	Plans      int      `json:"plans"`
	Mismatches []string `json:"mismatches"`
	DocTouched []string `json:"doc_touched"`
}

// shared bases are loaded before the threads start and are never rebound; every thread may render them and load
// templates derived from them under its own names
func genConcPlan(r *rng, feats map[string]int) (pre []engOp, threads [][]engOp) {
	var datas []*tdata
	g := &tgen{r: r.fork(), feats: map[string]int{}}
	shared := []string{"shared_b0", "shared_b1"}
	for _, nm := range shared {
		pre = append(pre, engOp{Kind: "load", Name: nm, Content: genBaseText(g)})
	}
	nt := r.rangeI(2, 4)
	for t := 0; t < nt; t++ {
		names := []string{fmt.Sprintf("t%d_a", t), fmt.Sprintf("t%d_b", t), fmt.Sprintf("t%d_c", t)}
		threads = append(threads, genEngineOps(r.fork(), feats, names, r.rangeI(4, 10), &datas, false, shared...))
	}
	return pre, threads
}

func runThreadAlone(pre, ops []engOp) []string {
	te := document.NewTemplateEngine()
	for _, o := range pre {
		applyEngOp(te, o)
	}
	var outs []string
	for _, o := range ops {
		s, ok, isRender := applyEngOp(te, o)
		if isRender {
			outs = append(outs, fmt.Sprintf("%v:%s", ok, s))
		}
	}
	return outs
}

func runC17Child(cfg *runCfg) error {
	raw, err := os.ReadFile(cfg.replay)
	if err != nil {
		return err
	}
	var in c17ChildIn
	if err := json.Unmarshal(raw, &in); err != nil {
		return err
	}
	out := c17ChildOut{}
	r := newRng(in.Seed)
	feats := map[string]int{}
	for pi := 0; pi < in.Plans; pi++ {
		pre, threads := genConcPlan(r.fork(), feats)
		// a shared document template rendered by every thread as well
		dr := r.fork()
		docSeed := dr.next()
		base := buildTemplateDoc(docSeed)
		before := docDumpString(base)
		te := document.NewTemplateEngine()
		te.LoadTemplateFromDocument("shared_doc", base)
		for _, o := range pre {
			applyEngOp(te, o)
		}
		alone := make([][]string, len(threads))
		for t := range threads {
			alone[t] = runThreadAlone(pre, threads[t])
		}
		got := make([][]string, len(threads))
		docGot := make([]string, len(threads))
		docWant := make([]string, len(threads))
		datas := make([]*document.TemplateData, len(threads))
		for t := range threads {
			datas[t] = docTemplateData(dr.next(), cfg.out)
		}
		// expected document renders: sequentially on a second engine with an identical base document
		te2 := document.NewTemplateEngine()
		base2 := buildTemplateDoc(docSeed)
		te2.LoadTemplateFromDocument("shared_doc", base2)
		for t := range threads {
			if d, err := te2.RenderTemplateToDocument("shared_doc", datas[t]); err == nil {
				docWant[t] = docDumpString(d)
			}
		}
		var wg sync.WaitGroup
		start := make(chan struct{})
		for t := range threads {
			wg.Add(1)
			go func(t int) {
				defer wg.Done()
				<-start
				for _, o := range threads[t] {
					s, ok, isRender := applyEngOp(te, o)
					if isRender {
						got[t] = append(got[t], fmt.Sprintf("%v:%s", ok, s))
					}
				}
				if d, err := te.RenderTemplateToDocument("shared_doc", datas[t]); err == nil {
					docGot[t] = docDumpString(d)
				}
			}(t)
		}
		close(start)
		wg.Wait()
		out.Plans++
		for t := range threads {
			if strings.Join(got[t], "\x00") != strings.Join(alone[t], "\x00") {
				out.Mismatches = append(out.Mismatches, fmt.Sprintf("plan %d thread %d: concurrent renders %q, alone %q", pi, t, got[t], alone[t]))
			}
			if docGot[t] != docWant[t] {
				out.Mismatches = append(out.Mismatches, fmt.Sprintf("plan %d thread %d: the shared document template rendered differently under concurrency", pi, t))
			}
		}
		if docDumpString(base) != before {
			out.DocTouched = append(out.DocTouched, fmt.Sprintf("plan %d: the base document of the shared template was modified", pi))
		}
	}
	b, _ := json.Marshal(out)
	return os.WriteFile(filepath.Join(cfg.out, "c17child.json"), b, 0644)
}

func runC17(cfg *runCfg) error {
	res := newResult("C17", cfg.seed)
	r := newRng(cfg.seed + 1717)
	feats := map[string]int{}
	dist := newDistinct()
	failCount := map[string]int{}
	fail := func(ci int, clause, class, detail string, c interface{}) {
		failCount[class]++
		if failCount[class] <= 5 {
			res.OracleFailures = append(res.OracleFailures, OracleFailure{Clause: clause, Class: class, Detail: detail, CaseID: ci, Case: c})
		}
	}
	var cases []string
	// ---- sequential histories
	for ci := 0; ci < cfg.n; ci++ {
		cr := r.fork()
		var datas []*tdata
		ops := genEngineOps(cr, feats, tplNames, cr.rangeI(4, 14), &datas, true)
		res.Evaluations++
		te := document.NewTemplateEngine()
		bound := map[string]int{} // name -> index of the load that bound it
		parentOf := map[int]int{} // load index -> load index of the parent (-1: none)
		var coqOps, coqOuts []string
		var hist []string
		for k, o := range ops {
			hist = append(hist, o.Kind+" "+o.Name)
			coqOps = append(coqOps, engOpCoq(o))
			switch o.Kind {
			case "load":
				par := -1
				if m := extendsRe.FindStringSubmatch(o.Content); m != nil {
					if j, ok := bound[m[1]]; ok {
						par = j
					}
				}
				parentOf[k] = par
			}
			var snapshot *document.TemplateData
			if o.Kind == "render" {
				snapshot = o.data.toGo()
			}
			s, ok, isRender := applyEngOp(te, o)
			switch o.Kind {
			case "load":
				bound[o.Name] = k
			case "remove":
				delete(bound, o.Name)
			case "clear":
				bound = map[string]int{}
			}
			if !isRender {
				continue
			}
			if ok {
				coqOuts = append(coqOuts, "Some "+cStrRaw(s))
			} else {
				coqOuts = append(coqOuts, "None")
			}
			// alone: a fresh engine with only the defining chain
			j, isBound := bound[o.Name]
			if !isBound {
				if ok {
					fail(ci, "render_alone", "renders_unbound", fmt.Sprintf("history %v: %s renders although it is not cached", hist, o.Name), nil)
				}
				continue
			}
			var chain []int
			for x := j; x >= 0; x = parentOf[x] {
				chain = append([]int{x}, chain...)
			}
			fresh := document.NewTemplateEngine()
			for _, x := range chain {
				fresh.LoadTemplate(ops[x].Name, ops[x].Content)
			}
			want, wok := renderText(fresh, o.Name, o.data)
			if want != s || wok != ok {
				fail(ci, "render_alone", "q_render_depends_on_history", fmt.Sprintf("history %v: rendering %s gives %q; a fresh engine that loaded only its defining templates gives %q", hist, o.Name, s, want),
					map[string]interface{}{"ops": hist, "step": k})
			}
			// the data are untouched
			if !reflect.DeepEqual(snapshot, o.data.toGo()) {
				fail(ci, "data_unchanged", "data_modified", fmt.Sprintf("history %v: render of %s modified its data", hist, o.Name), nil)
			}
		}
		dist.add(strings.Join(coqOps, ";"))
		cases = append(cases, fmt.Sprintf("([%s],\n  [%s])", strings.Join(coqOps, ";\n  "), strings.Join(coqOuts, "; ")))
	}
	// ---- document templates: the base document is never modified, renders do not depend on earlier renders
	nDoc := cfg.n / 4
	for ci := 0; ci < nDoc; ci++ {
		cr := r.fork()
		docSeed := cr.next()
		base := buildTemplateDoc(docSeed)
		before := docDumpString(base)
		te := document.NewTemplateEngine()
		if _, err := te.LoadTemplateFromDocument("doc", base); err != nil {
			fail(ci, "loads", "doc_load_error", err.Error(), nil)
			continue
		}
		res.Evaluations++
		feats["document template history"]++
		var td *document.TemplateData
		var tdSeed uint64
		for k, n := 0, cr.rangeI(2, 4); k < n; k++ {
			// the data of this rendering: a new object, or the object of the rendering before
			if td == nil || cr.chance(55) {
				tdSeed = cr.next()
				td = docTemplateData(tdSeed, cfg.out)
			} else {
				feats["document template rendered again with the same data object"]++
			}
			tdBefore := dumpTemplateData(td)
			d1, err := te.RenderTemplateToDocument("doc", td)
			if err != nil {
				fail(ci, "renders", "doc_render_error", err.Error(), nil)
				break
			}
			if after := dumpTemplateData(td); after != tdBefore {
				fail(ci, "data_unchanged", "data_modified", fmt.Sprintf("render %d of a document template modified its data: %s -> %s", k+1, tdBefore, after), nil)
				break
			}
			if docDumpString(base) != before {
				fail(ci, "base_unchanged", "base_document_modified", fmt.Sprintf("render %d of a document template modified its base document", k+1), nil)
				break
			}
			fe := document.NewTemplateEngine()
			fe.LoadTemplateFromDocument("doc", buildTemplateDoc(docSeed))
			d2, err := fe.RenderTemplateToDocument("doc", docTemplateData(tdSeed, cfg.out))
			if err == nil && docDumpString(d1) != docDumpString(d2) {
				fail(ci, "render_alone", "doc_render_depends_on_history", fmt.Sprintf("render %d of a document template differs from the render of a fresh engine", k+1), nil)
				break
			}
			// a render through RenderToDocument as well (text path on a document template)
			if _, err := te.RenderToDocument("doc", td); err == nil && docDumpString(base) != before {
				fail(ci, "base_unchanged", "base_document_modified", "RenderToDocument of a document template modified its base document", nil)
				break
			}
		}
	}
	// ---- concurrent plans in a child process
	bin, _ := os.Executable()
	raceBin := filepath.Join(filepath.Dir(bin), "wzh_race")
	useRace := false
	if _, err := os.Stat(raceBin); err == nil {
		bin = raceBin
		useRace = true
	}
	res.Extra["race_binary"] = useRace
	nPlans := cfg.n / 10
	if nPlans < 10 {
		nPlans = 10
	}
	sub := filepath.Join(cfg.out, "c17child")
	os.MkdirAll(sub, 0755)
	pf := filepath.Join(sub, "in.json")
	inb, _ := json.Marshal(c17ChildIn{Seed: cfg.seed + 99, Plans: nPlans})
	os.WriteFile(pf, inb, 0644)
	cmd := exec.Command(bin, "C17child", "-out", sub, "-replay", pf)
	cmd.Env = append(os.Environ(), "WZH_CHILD=1", "GORACE=halt_on_error=0 exitcode=0")
	var stderr bytes.Buffer
	cmd.Stderr = &stderr
	if err := cmd.Run(); err != nil {
		fail(-1, "concurrent_run", "concurrent_child_failed", fmt.Sprintf("%v: %s", err, lastLines(stderr.String(), 8)), nil)
	} else {
		var co c17ChildOut
		if raw, err := os.ReadFile(filepath.Join(sub, "c17child.json")); err == nil {
			json.Unmarshal(raw, &co)
		}
		res.Evaluations += co.Plans
		res.Extra["concurrent_plans"] = co.Plans
		for _, m := range co.Mismatches {
			fail(-1, "concurrent_equals_alone", "concurrent_differs", m, nil)
		}
		for _, m := range co.DocTouched {
			fail(-1, "base_unchanged", "base_document_modified", m, nil)
		}
		if strings.Contains(stderr.String(), "DATA RACE") {
			se := stderr.String()
			fail(-1, "race_free", "data_race", "data race reported: "+lastLines(se[strings.Index(se, "DATA RACE"):], 14), nil)
		}
	}
	os.RemoveAll(sub)
	res.DistinctNontrivial = dist.n()
	res.Histogram = feats
	res.Shards = writeShardsPlain(cfg.out, "c17cases", "From Coq Require Import String List Bool.\nFrom WZ Require Import Model.Template Model.Engine Corr.EngineCorr.\nImport ListNotations.\nOpen Scope string_scope.\n", "(list op * list (option string))", "mismatches", cases, 40)
	res.write(cfg.out)
	return nil
}

// oneDimension: a picture configuration that gives the width or the height only, with or without the aspect-ratio flag
func oneDimension(r *rng) *document.ImageConfig {
	sz := &document.ImageSize{KeepAspectRatio: r.chance(60)}
	if r.chance(50) {
		sz.Width = float64(10 + r.intn(30))
	} else {
		sz.Height = float64(10 + r.intn(30))
	}
	return &document.ImageConfig{Size: sz}
}
