package main

// C06: opening never crashes or hangs, whatever the input bytes.
//
// Streams:
//   raw      arbitrary bytes, truncated and bit-flipped packages -> Open must return an error or a usable document
//   weird    packages whose main part is generated from a grammar that puts elements in unexpected places, leaves
//            out values, changes roots and namespaces, nests and repeats, then truncates or mis-nests the text;
//            the optional parts are missing / damaged / good
//   every successfully opened document is exercised (reading accessors, edits, save, reopen) under recover()
//
// Correspondence (Corr/WalkCorr.v): the token stream of the main part (as encoding/xml delivers it) and the status of
// the optional parts go to the model; the model's verdict (error / opened), its hit counts per (walker, element)
// and the fallback decisions are compared with the opened document.

import (
	"archive/zip"
	"bytes"
	"encoding/xml"
	"fmt"
	"io"
	"os"
	"path/filepath"
	"runtime/debug"
	"strings"
	"time"

	"github.com/zerx-lab/wordZero/pkg/document"
)

func init() { props["C06"] = runC06 }

const mainNS = "http://schemas.openxmlformats.org/wordprocessingml/2006/main"
const strictNS = "http://purl.oclc.org/ooxml/wordprocessingml/main"

// ---- main part grammar ------------------------------------------------------------------------

var weirdVocab = []string{"p", "r", "t", "tbl", "tr", "tc", "pPr", "rPr", "tblPr", "tblGrid", "gridCol", "tcPr", "trPr", "sectPr",
	"drawing", "inline", "anchor", "graphic", "graphicData", "pic", "blipFill", "blip", "sdt", "sdtContent", "sdtPr", "sdtEndPr", "docPartObj", "placeholder", "docPart", "hyperlink", "ins", "smartTag",
	"bookmarkStart", "bookmarkEnd", "jc", "b", "sz", "spacing", "ind", "numPr", "ilvl", "numId", "pBdr", "tabs", "tab", "br", "fldChar", "instrText",
	"gridSpan", "vMerge", "tcW", "pgSz", "pgMar", "headerReference", "body", "document", "unknownX", "AlternateContent", "Choice", "positionH", "align",
	"wrapTight", "wrapPolygon", "lineTo", "extent", "docPr", "nvPicPr", "cNvPicPr", "picLocks", "spPr", "xfrm", "off", "ext", "stretch",
	"oMath", "oMathPara", "oMathParaPr", "f", "num", "den"}

var sensibleKids = map[string][]string{
	"body":        {"p", "p", "p", "tbl", "sectPr", "bookmarkStart", "sdt"},
	"p":           {"pPr", "r", "r", "r", "hyperlink", "bookmarkStart", "oMath", "oMathPara"},
	"oMathPara":   {"oMathParaPr", "oMath", "oMath"},
	"oMath":       {"r", "f", "t", "oMath"},
	"f":           {"num", "den"},
	"num":         {"r"},
	"den":         {"r"},
	"r":           {"rPr", "t", "t", "br", "drawing", "fldChar", "instrText"},
	"tbl":         {"tblPr", "tblGrid", "tr", "tr"},
	"tr":          {"trPr", "tc", "tc", "tc"},
	"tc":          {"tcPr", "p", "p", "tbl"},
	"pPr":         {"jc", "spacing", "ind", "numPr", "pBdr", "tabs", "sectPr"},
	"rPr":         {"b", "sz"},
	"tcPr":        {"gridSpan", "vMerge", "tcW"},
	"tblGrid":     {"gridCol", "gridCol"},
	"sectPr":      {"pgSz", "pgMar", "headerReference"},
	"drawing":     {"inline", "anchor"},
	"inline":      {"extent", "docPr", "graphic"},
	"anchor":      {"extent", "docPr", "graphic", "positionH", "wrapTight"},
	"graphic":     {"graphicData"},
	"graphicData": {"pic"},
	"pic":         {"nvPicPr", "blipFill", "spPr"},
	"sdt":         {"sdtPr", "sdtEndPr", "sdtContent", "sdtContent"},
	"sdtContent":  {"p", "tbl", "r", "sdt", "bookmarkStart", "bookmarkEnd"},
	"sdtPr":       {"rPr", "id", "color", "docPartObj", "placeholder"},
	"sdtEndPr":    {"rPr"},
	"docPartObj":  {"docPartGallery", "docPartUnique"},
	"placeholder": {"docPart"},
	"hyperlink":   {"r"},
	"numPr":       {"ilvl", "numId"},
	"tabs":        {"tab"},
	"positionH":   {"align"},
	"wrapTight":   {"wrapPolygon"},
	"wrapPolygon": {"lineTo"},
	"blipFill":    {"blip", "stretch"},
	"nvPicPr":     {"cNvPicPr"},
	"cNvPicPr":    {"picLocks"},
	"spPr":        {"xfrm"},
	"xfrm":        {"off", "ext"},
}

type weirdGen struct {
	r      *rng
	b      strings.Builder
	budget int
	chaos  int // percent of children drawn from the whole vocabulary instead of the sensible ones
	feats  map[string]int
}

func (g *weirdGen) attrs(name string) string {
	r := g.r
	if r.chance(25) {
		return "" // properties without values
	}
	switch name {
	case "jc", "b", "sz", "gridSpan", "vMerge", "ilvl", "numId", "tcW", "gridCol", "tab":
		return fmt.Sprintf(` w:val="%s" w:w="%d"`, []string{"1", "center", "restart", "999999999999999999999", "-3", "", "x"}[r.intn(7)], r.intn(5000))
	case "bookmarkStart", "bookmarkEnd":
		return fmt.Sprintf(` w:id="%d" w:name="n%d"`, r.intn(5), r.intn(5))
	case "t", "instrText":
		if r.chance(50) {
			return ` xml:space="preserve"`
		}
	case "blip":
		return fmt.Sprintf(` r:embed="rId%d"`, r.intn(9))
	case "headerReference":
		return fmt.Sprintf(` w:type="default" r:id="rId%d"`, r.intn(9))
	case "br", "fldChar":
		return ` w:type="page" w:fldCharType="begin"`
	case "extent", "ext", "off":
		return fmt.Sprintf(` cx="%d" cy="%d" x="1" y="2"`, r.intn(100000), r.intn(100000))
	case "pgSz":
		return fmt.Sprintf(` w:w="%d" w:h="%d" w:orient="landscape"`, r.intn(20000), r.intn(20000))
	}
	return ""
}

func (g *weirdGen) elem(name string, depth int) {
	g.budget--
	r := g.r
	pfx := "w:"
	switch name {
	case "oMath", "oMathPara", "oMathParaPr", "f", "num", "den":
		pfx = "m:"
	}
	if r.chance(5) {
		pfx = []string{"", "x:", "w14:"}[r.intn(3)]
	}
	g.b.WriteString("<" + pfx + name + g.attrs(name))
	if g.budget <= 0 || depth > 40 || r.chance(12) {
		g.b.WriteString("/>")
		return
	}
	g.b.WriteString(">")
	if name == "t" || name == "instrText" || name == "align" || r.chance(8) {
		g.b.WriteString(xmlEsc(rtTexts[r.intn(len(rtTexts))]))
	}
	if name == "oMath" && r.chance(40) {
		// what the reader copies verbatim: comments, CDATA, references, processing instructions, non-ASCII
		g.b.WriteString([]string{"<!-- a < b -->", "<![CDATA[a<b]]>", "&amp;&#65;&lt;", "<?pi x?>", "é中", " \n\t "}[r.intn(6)])
		g.feats["formula with comment, CDATA, reference or non-ASCII content"]++
	}
	n := r.intn(4)
	for i := 0; i < n && g.budget > 0; i++ {
		var kid string
		if ks, ok := sensibleKids[name]; ok && !r.chance(g.chaos) {
			kid = ks[r.intn(len(ks))]
		} else {
			kid = weirdVocab[r.intn(len(weirdVocab))]
			g.feats["child in an unexpected place"]++
		}
		g.elem(kid, depth+1)
	}
	g.b.WriteString("</" + pfx + name + ">")
}

// genMainPart returns the bytes of word/document.xml and a label
func genMainPart(r *rng, feats map[string]int, tier string) ([]byte, string) {
	g := &weirdGen{r: r, budget: r.rangeI(5, 120), chaos: []int{0, 10, 40, 90}[r.intn(4)], feats: feats}
	root, ns := "w:document", mainNS
	label := "document"
	switch r.pick([]int{70, 6, 6, 4, 4, 4, 3, 3}) {
	case 1:
		ns, label = strictNS, "strict namespace"
	case 2:
		root, label = "w:settings", "other root"
	case 3:
		return nil, "empty part"
	case 4:
		return []byte("<?xml version=\"1.0\"?>"), "declaration only"
	case 5:
		root, label = "document", "root without prefix"
	case 6:
		return []byte(strings.Repeat(" \n", r.intn(5)) + "not xml at all <<<"), "garbage"
	case 7:
		// extreme nesting or repetition
		depth := r.rangeI(200, 3000)
		if tier == "thorough" {
			depth = r.rangeI(3000, 60000)
		}
		var b strings.Builder
		b.WriteString(`<w:document xmlns:w="` + mainNS + `"><w:body>`)
		switch r.intn(3) {
		case 0:
			for i := 0; i < depth; i++ {
				b.WriteString("<w:tbl><w:tr><w:tc>")
			}
			b.WriteString("<w:p/>")
			for i := 0; i < depth; i++ {
				b.WriteString("</w:tc></w:tr></w:tbl>")
			}
			label = fmt.Sprintf("tables nested %d deep", depth)
		case 1:
			for i := 0; i < depth; i++ {
				b.WriteString("<w:unknownX>")
			}
			for i := 0; i < depth; i++ {
				b.WriteString("</w:unknownX>")
			}
			label = fmt.Sprintf("unknown elements nested %d deep", depth)
		case 2:
			for i := 0; i < depth; i++ {
				b.WriteString(`<w:p><w:r><w:t>x</w:t></w:r></w:p>`)
			}
			label = fmt.Sprintf("%d paragraphs", depth)
		}
		b.WriteString("</w:body></w:document>")
		feats["main part: extreme nesting or repetition"]++
		return []byte(b.String()), label
	}
	if r.chance(8) {
		g.b.WriteString("\xef\xbb\xbf")
		label += ", byte order mark"
	}
	g.b.WriteString(`<?xml version="1.0" encoding="UTF-8" standalone="yes"?>` + "\n")
	rootOpen := root
	if strings.HasPrefix(root, "w:") {
		g.b.WriteString("<" + rootOpen + ` xmlns:w="` + ns + `" xmlns:r="http://schemas.openxmlformats.org/officeDocument/2006/relationships" xmlns:x="urn:x" xmlns:w14="http://schemas.microsoft.com/office/word/2010/wordml" xmlns:m="http://schemas.openxmlformats.org/officeDocument/2006/math">`)
	} else {
		g.b.WriteString("<" + rootOpen + ` xmlns="` + ns + `" xmlns:w="` + ns + `" xmlns:r="http://schemas.openxmlformats.org/officeDocument/2006/relationships" xmlns:x="urn:x" xmlns:w14="urn:w14" xmlns:m="http://schemas.openxmlformats.org/officeDocument/2006/math">`)
	}
	switch r.pick([]int{70, 8, 8, 8, 6}) {
	case 0:
		g.elem("body", 0)
	case 1:
		g.b.WriteString("<w:background>")
		g.elem("body", 0)
		g.b.WriteString("</w:background>")
		label += ", body inside another element"
	case 2:
		label += ", no body"
	case 3:
		g.elem("body", 0)
		g.elem("body", 0)
		label += ", two bodies"
	case 4:
		g.elem(weirdVocab[r.intn(len(weirdVocab))], 0)
		g.elem("body", 0)
		label += ", element before the body"
	}
	if r.chance(30) {
		// a plain rows-by-columns table whose grid definition is absent, empty, shorter than, as long as or longer
		// than its rows: the structural edits of the exercise apply to it whatever the grid says
		rows, cols := r.rangeI(1, 4), r.rangeI(1, 5)
		gridCols := []int{-1, 0, r.intn(cols + 1), cols, cols, cols + r.rangeI(1, 2)}[r.intn(6)]
		var tb strings.Builder
		tb.WriteString("<w:tbl><w:tblPr><w:tblW w:w=\"5000\" w:type=\"dxa\"/></w:tblPr>")
		if gridCols >= 0 {
			tb.WriteString("<w:tblGrid>")
			for k := 0; k < gridCols; k++ {
				tb.WriteString(`<w:gridCol w:w="1000"/>`)
			}
			tb.WriteString("</w:tblGrid>")
		}
		for i := 0; i < rows; i++ {
			tb.WriteString("<w:tr>")
			for j := 0; j < cols; j++ {
				fmt.Fprintf(&tb, `<w:tc><w:p><w:r><w:t>c%d%d</w:t></w:r></w:p></w:tc>`, i, j)
			}
			tb.WriteString("</w:tr>")
		}
		tb.WriteString("</w:tbl>")
		cur := g.b.String()
		if k := strings.LastIndex(cur, "</w:body>"); k >= 0 {
			g.b.Reset()
			g.b.WriteString(cur[:k] + tb.String() + cur[k:])
			switch {
			case gridCols < 0:
				feats["plain table without a grid definition"]++
			case gridCols < cols:
				feats["plain table whose grid is shorter than its rows"]++
			case gridCols > cols:
				feats["plain table whose grid is longer than its rows"]++
			default:
				feats["plain table with a matching grid"]++
			}
		}
	}
	if r.chance(25) {
		// structured document tags in shapes the schema allows and the library never writes: without content, with
		// empty content, without properties, nested in the content of another one, around tables and runs
		var sd func(depth int) string
		sd = func(depth int) string {
			var b strings.Builder
			b.WriteString("<w:sdt>")
			if r.chance(70) {
				b.WriteString(`<w:sdtPr><w:id w:val="` + fmt.Sprint(r.intn(99)) + `"/>`)
				if r.chance(40) {
					b.WriteString(`<w:docPartObj><w:docPartGallery w:val="Table of Contents"/><w:docPartUnique/></w:docPartObj>`)
				}
				b.WriteString(`</w:sdtPr>`)
			}
			switch r.pick([]int{25, 15, 60}) {
			case 0: // no content at all
			case 1:
				b.WriteString("<w:sdtContent/>")
			default:
				b.WriteString("<w:sdtContent>")
				for i, n := 0, r.rangeI(1, 4); i < n; i++ {
					switch k := r.intn(5); {
					case k == 0 && depth < 4:
						b.WriteString(sd(depth + 1))
					case k == 1:
						b.WriteString(`<w:tbl><w:tr><w:tc><w:p><w:pPr><w:pStyle w:val="TableText"/></w:pPr><w:r><w:t>t</w:t></w:r></w:p></w:tc></w:tr></w:tbl>`)
					case k == 2:
						b.WriteString(`<w:r><w:t>run in content</w:t></w:r>`)
					default:
						b.WriteString(`<w:p><w:pPr><w:pStyle w:val="TOC` + fmt.Sprint(1+r.intn(3)) + `"/></w:pPr><w:r><w:t>entry</w:t></w:r></w:p>`)
					}
				}
				b.WriteString("</w:sdtContent>")
			}
			b.WriteString("</w:sdt>")
			return b.String()
		}
		cur := g.b.String()
		if k := strings.LastIndex(cur, "</w:body>"); k >= 0 {
			g.b.Reset()
			g.b.WriteString(cur[:k] + sd(0) + cur[k:])
			feats["structured document tags in unusual shapes (no content, empty content, nested)"]++
		}
	}
	g.b.WriteString("</" + rootOpen + ">")
	if r.chance(10) {
		g.b.WriteString("<!-- trailing --><trailing/>")
		label += ", trailing content"
	}
	out := []byte(g.b.String())
	switch r.pick([]int{70, 12, 10, 8}) {
	case 1:
		if len(out) > 10 {
			out = out[:r.rangeI(1, len(out)-1)]
			label += ", truncated"
		}
	case 2:
		// drop one end tag -> mis-nested
		s := string(out)
		if i := strings.LastIndex(s[:len(s)/2+1], "</"); i >= 0 {
			if j := strings.Index(s[i:], ">"); j >= 0 {
				out = []byte(s[:i] + s[i+j+1:])
				label += ", an end tag removed"
			}
		}
	case 3:
		s := string(out)
		s = strings.Replace(s, "</w:p>", "</w:r>", 1)
		out = []byte(s)
		label += ", an end tag renamed"
	}
	feats["main part: "+label]++
	return out, label
}

// ---- optional parts ------------------------------------------------------------------------------

const ctGood = `<?xml version="1.0" encoding="UTF-8" standalone="yes"?>
<Types xmlns="http://schemas.openxmlformats.org/package/2006/content-types"><Default Extension="rels" ContentType="application/vnd.openxmlformats-package.relationships+xml"/><Default Extension="xml" ContentType="application/xml"/><Default Extension="wzmark" ContentType="application/x-wzmark"/><Override PartName="/word/document.xml" ContentType="application/vnd.openxmlformats-officedocument.wordprocessingml.document.main+xml"/><Override PartName="/word/styles.xml" ContentType="application/vnd.openxmlformats-officedocument.wordprocessingml.styles+xml"/></Types>`
const relsGood = `<?xml version="1.0" encoding="UTF-8" standalone="yes"?>
<Relationships xmlns="http://schemas.openxmlformats.org/package/2006/relationships"><Relationship Id="rId1" Type="http://schemas.openxmlformats.org/officeDocument/2006/relationships/officeDocument" Target="word/document.xml"/><Relationship Id="rIdWz" Type="http://example.org/wzmark" Target="wz/mark.xml"/></Relationships>`
const stylesGood = `<?xml version="1.0" encoding="UTF-8" standalone="yes"?>
<w:styles xmlns:w="` + mainNS + `"><w:style w:type="paragraph" w:styleId="WzMarker"><w:name w:val="Wz Marker"/></w:style></w:styles>`
const docRelsGood = `<?xml version="1.0" encoding="UTF-8" standalone="yes"?>
<Relationships xmlns="http://schemas.openxmlformats.org/package/2006/relationships"><Relationship Id="rId1" Type="http://schemas.openxmlformats.org/officeDocument/2006/relationships/styles" Target="styles.xml"/><Relationship Id="rIdWzLink" Type="http://schemas.openxmlformats.org/officeDocument/2006/relationships/hyperlink" Target="http://example.org/" TargetMode="External"/></Relationships>`

// damage returns (bytes, present) for status 0 = missing, 1 = bad, 2 = good
func damage(r *rng, good string, status int) ([]byte, bool) {
	switch status {
	case 0:
		return nil, false
	case 2:
		return []byte(good), true
	}
	switch r.intn(5) {
	case 0:
		return []byte{}, true
	case 1:
		return []byte(good[:r.rangeI(1, len(good)-2)]), true
	case 2:
		return []byte(`<?xml version="1.0"?><other xmlns="urn:other"><x/></other>`), true
	case 3:
		return []byte("\x00\x01garbage<"), true
	default:
		return []byte(good[:len(good)-5] + "x>"), true // the root's end tag does not match
	}
}

type c06Case struct {
	kind   string
	label  string
	data   []byte
	doc    []byte // main part, nil = absent
	hasDoc bool
	stat   [4]int // ct, rels, styles, docrels
	zipOK  bool
	deep   int // levels of nesting of an extreme-nesting case
}

func buildWeirdCase(r *rng, feats map[string]int, tier string) *c06Case {
	c := &c06Case{kind: "weird", zipOK: true}
	parts := map[string][]byte{}
	doc, label := genMainPart(r, feats, tier)
	c.label = label
	if i := strings.Index(label, "nested "); i >= 0 {
		fmt.Sscanf(label[i:], "nested %d deep", &c.deep)
	}
	if r.chance(4) {
		c.hasDoc = false
		c.label = "main part missing"
		feats["main part: missing"]++
	} else {
		c.hasDoc = true
		c.doc = doc
		if doc == nil {
			doc = []byte{}
			c.doc = doc
		}
		parts["word/document.xml"] = doc
	}
	goods := []string{ctGood, relsGood, stylesGood, docRelsGood}
	names := []string{"[Content_Types].xml", "_rels/.rels", "word/styles.xml", "word/_rels/document.xml.rels"}
	for i := range goods {
		c.stat[i] = r.pick([]int{15, 25, 60})
		if b, ok := damage(r, goods[i], c.stat[i]); ok {
			parts[names[i]] = b
		}
		feats[fmt.Sprintf("%s: %s", names[i], []string{"missing", "damaged", "good"}[c.stat[i]])]++
	}
	if r.chance(30) {
		parts["word/media/image1.png"] = imageBytes("png", 3)
		parts["customXml/item1.xml"] = []byte("<a/>")
	}
	// numbering and notes parts that the managers take over when the opened document is edited: well-formed ones of
	// several shapes, and damaged ones (the edits must not panic on them)
	wOpen := `xmlns:w="` + mainNS + `"`
	if r.chance(30) {
		variants := []string{
			`<w:numbering ` + wOpen + `><w:abstractNum w:abstractNumId="3"><w:lvl w:ilvl="0"><w:numFmt w:val="decimal"/></w:lvl></w:abstractNum><w:num w:numId="7"><w:abstractNumId w:val="3"/></w:num></w:numbering>`,
			`<w:numbering ` + wOpen + `/>`,
			`<numbering xmlns="` + mainNS + `"><abstractNum abstractNumId="x"/><num numId="99999999999999999999"><abstractNumId/></num><num numId="-4"/></numbering>`,
			`<w:numbering ` + wOpen + `><w:num w:numId="2"><w:abstractNumId w:val="0"/>`,
			`<w:settings ` + wOpen + `/>`,
			`not xml`,
			``,
			`<w:numbering ` + wOpen + `><w:numPicBullet w:numPicBulletId="0"/><w:abstractNum w:abstractNumId="0"/><w:num w:numId="1"><w:abstractNumId w:val="0"/></w:num><w:numIdMacAtCleanup w:val="1"/></w:numbering>`,
		}
		parts["word/numbering.xml"] = []byte(variants[r.intn(len(variants))])
		feats["numbering part present (good or damaged)"]++
	}
	if r.chance(30) {
		variants := []string{
			`<w:footnotes ` + wOpen + `><w:footnote w:type="separator" w:id="-1"><w:p/></w:footnote><w:footnote w:id="4"><w:p><w:r><w:t>old</w:t></w:r></w:p></w:footnote></w:footnotes>`,
			`<w:footnotes ` + wOpen + `/>`,
			`<w:footnotes ` + wOpen + `><w:footnote w:id="x"/><w:footnote w:id="99999999999999999999"/><w:footnote w:type="normal" w:id="2"/>`,
			`<w:endnotes ` + wOpen + `/>`,
			`<<<`,
		}
		parts["word/footnotes.xml"] = []byte(variants[r.intn(len(variants))])
		parts["word/endnotes.xml"] = []byte(strings.ReplaceAll(variants[r.intn(len(variants))], "footnote", "endnote"))
		feats["notes parts present (good or damaged)"]++
	}
	// entries with unusual names: media without an extension or a number, directories, names that collide with the
	// library's own parts after cleaning, very long names
	if r.chance(25) {
		odd := []string{"word/media/image1", "word/media/image", "word/media/image.", "word/media/images/photo", "word/media/imageZ.png",
			"word/media/image-1.png", "word/media/image99999999999999999999.png", "word/media/", "word/", "/word/document.xml", "word\\document.xml",
			"../evil.xml", "word/_rels/", "[Content_Types].xml/", "word/média/imagé1.png", "word/media/image1.png.", "word/media/.png",
			"word/header", "word/header.xml", "word/headerX.xml", "word/footer1", "docProps/", "word/media/image07.PNG", strings.Repeat("d/", 200) + "x.xml",
			"word/styles.xml/", "word/numbering", "word/_rels/document.xml.rels/", "_rels/", "word/document.xml.bak", "word/theme/theme1.xml"}
		for k := r.rangeI(1, 4); k > 0; k-- {
			n := odd[r.intn(len(odd))]
			if _, dup := parts[n]; !dup {
				parts[n] = []byte([]string{"", "x", "<a/>", string(imageBytes("png", 3))}[r.intn(4)])
			}
		}
		feats["package entries with unusual names"]++
	}
	c.data = foreignZip(parts)
	return c
}

func buildRawCase(r *rng, base []byte, feats map[string]int) *c06Case {
	c := &c06Case{kind: "raw"}
	switch r.intn(6) {
	case 0:
		n := r.intn(300)
		b := make([]byte, n)
		for i := range b {
			b[i] = byte(r.intn(256))
		}
		c.data, c.label = b, "random bytes"
	case 1:
		c.data, c.label = []byte{}, "no bytes"
	case 2:
		c.data, c.label = base[:r.intn(len(base))], "truncated package"
	case 3:
		b := append([]byte(nil), base...)
		for k := r.rangeI(1, 12); k > 0; k-- {
			b[r.intn(len(b))] ^= byte(1 << uint(r.intn(8)))
		}
		c.data, c.label = b, "package with flipped bits"
	case 4:
		c.data, c.label = append([]byte("PK\x03\x04"), base[:r.intn(60)]...), "zip signature and noise"
	case 5:
		b := append([]byte(nil), base...)
		// overwrite a run of bytes with zeros
		i := r.intn(len(b))
		for k := 0; k < 40 && i+k < len(b); k++ {
			b[i+k] = 0
		}
		c.data, c.label = b, "package with a zeroed run"
	}
	feats["raw: "+c.label]++
	return c
}

// ---- tokens of the main part as encoding/xml delivers them -------------------------------------------------

func docTokens(doc []byte, limit int) (toks []string, clean bool, n int) {
	dec := xml.NewDecoder(bytes.NewReader(doc))
	lastOther := false
	for {
		tok, err := dec.Token()
		if err == io.EOF {
			return toks, true, n
		}
		if err != nil {
			return toks, false, n
		}
		n++
		if n > limit {
			return nil, false, n
		}
		switch t := tok.(type) {
		case xml.StartElement:
			toks = append(toks, fmt.Sprintf("s %s %s", cStr(t.Name.Local), cBool(t.Name.Space == mainNS)))
			lastOther = false
		case xml.EndElement:
			toks = append(toks, "e "+cStr(t.Name.Local))
			lastOther = false
		default:
			if !lastOther {
				toks = append(toks, "o")
			}
			lastOther = true
		}
	}
}

// ---- exercising an opened document ----------------------------------------------------------------------

type panicRec struct{ where, msg string }

func guard(where string, out *[]panicRec, f func()) {
	defer func() {
		if p := recover(); p != nil {
			st := string(debug.Stack())
			// the frame of the library function that panicked
			fn := ""
			for _, ln := range strings.Split(st, "\n") {
				if strings.Contains(ln, "wordZero/pkg/") && strings.Contains(ln, "(") {
					fn = strings.TrimSpace(ln)
					if i := strings.LastIndex(fn, "/"); i >= 0 {
						fn = fn[i+1:]
					}
					if i := strings.Index(fn, "("); i >= 0 && strings.HasSuffix(fn, ")") {
						if j := strings.LastIndex(fn, "("); j > 0 {
							fn = fn[:j]
						}
					}
					break
				}
			}
			*out = append(*out, panicRec{where + " in " + fn, fmt.Sprint(p)})
		}
	}()
	f()
}

func rectangular(t *document.Table) bool {
	if len(t.Rows) == 0 {
		return false
	}
	n := len(t.Rows[0].Cells)
	for _, row := range t.Rows {
		if len(row.Cells) != n || n == 0 {
			return false
		}
		for ci := range row.Cells {
			p := row.Cells[ci].Properties
			if p != nil && (p.GridSpan != nil || p.VMerge != nil) {
				return false
			}
		}
	}
	return true
}

// light: the document nests thousands of levels deep; saving it is quadratic in the depth (the indentation of the
// written XML), which is slow, not wrong - it is read and edited but not saved (the quick tier saves documents of up
// to 3000 levels)
var reflCalled int
var reflAlso = map[string]int{}

func exerciseDoc(d *document.Document, r *rng, light bool) (ps []panicRec, notes []string) {
	guard("Body.GetParagraphs", &ps, func() {
		for _, p := range d.Body.GetParagraphs() {
			for range p.Runs {
			}
		}
	})
	var tables []*document.Table
	guard("Body.GetTables", &ps, func() { tables = d.Body.GetTables() })
	guard("GetStyleManager", &ps, func() { _ = d.GetStyleManager().GetAllStyles() })
	guard("GetPageSettings", &ps, func() { _ = d.GetPageSettings() })
	if !light {
		guard("ToBytes", &ps, func() { _, _ = d.ToBytes() })
	}
	for ti, t := range tables {
		if ti >= 4 {
			break
		}
		guard("Table reading accessors", &ps, func() {
			nr, nc := t.GetRowCount(), t.GetColumnCount()
			for i := 0; i < nr && i < 6; i++ {
				for j := 0; j < nc+1 && j < 6; j++ {
					_, _ = t.GetCellText(i, j)
					_, _ = t.GetCell(i, j)
				}
			}
		})
		rect := rectangular(t)
		// cell-level formatting with each option on its own, on every cell as it was read (a cell may hold no paragraph
		// of its own: only a nested table, or nothing)
		guard("Table.SetCellFormat (one option at a time)", &ps, func() {
			nr := t.GetRowCount()
			for i := 0; i < nr && i < 5; i++ {
				for j := 0; j < len(t.Rows[i].Cells) && j < 5; j++ {
					_ = t.SetCellFormat(i, j, &document.CellFormat{TextFormat: &document.TextFormat{Italic: true}})
					_ = t.SetCellFormat(i, j, &document.CellFormat{HorizontalAlign: document.CellAlignRight})
					_ = t.SetCellFormat(i, j, &document.CellFormat{VerticalAlign: document.CellVAlignCenter})
					_ = t.SetCellFormat(i, j, &document.CellFormat{})
				}
			}
		})
		guard("Table.SetCellText", &ps, func() { _ = t.SetCellText(0, 0, "x") })
		guard("Table.AddCellParagraph", &ps, func() { _, _ = t.AddCellParagraph(0, 0, "y") })
		guard("Table.SetCellFormat", &ps, func() {
			_ = t.SetCellFormat(0, 0, &document.CellFormat{TextFormat: &document.TextFormat{Bold: true}, HorizontalAlign: document.CellAlignCenter})
		})
		guard("Table.SetTableBorders", &ps, func() {
			bc := &document.BorderConfig{Style: document.BorderStyleSingle, Width: 4, Color: "000000"}
			_ = t.SetTableBorders(&document.TableBorderConfig{Top: bc})
		})
		guard("Table.SetRowHeight", &ps, func() { _ = t.SetRowHeight(0, &document.RowHeightConfig{Height: 20, Rule: document.RowHeightExact}) })
		// structural edits: on tables whose rows differ in length or that hold merges these are C09's known
		// findings; here they are applied to plain grids only (with or without a grid definition)
		if rect {
			// positions anywhere in the table, at its edges and one beyond (a refused call is fine, a panic is not)
			pos := func(n int) int {
				if n <= 0 {
					return 0
				}
				return r.intn(n + 2)
			}
			guard("Table.InsertColumn", &ps, func() { _ = t.InsertColumn(pos(t.GetColumnCount()), []string{"a"}, 900) })
			guard("Table.AppendColumn", &ps, func() { _ = t.AppendColumn([]string{"b"}, 900) })
			guard("Table.DeleteColumn", &ps, func() { _ = t.DeleteColumn(pos(t.GetColumnCount() - 1)) })
			guard("Table.DeleteColumns", &ps, func() {
				a := pos(t.GetColumnCount() - 1)
				_ = t.DeleteColumns(a, a+r.intn(2))
			})
			guard("Table.InsertRow", &ps, func() { _ = t.InsertRow(pos(t.GetRowCount()), []string{"r"}) })
			guard("Table.AppendRow", &ps, func() { _ = t.AppendRow([]string{"r"}) })
			guard("Table.DeleteRow", &ps, func() { _ = t.DeleteRow(pos(t.GetRowCount() - 1)) })
			guard("Table.MergeCellsHorizontal", &ps, func() {
				a := pos(t.GetColumnCount() - 2)
				_ = t.MergeCellsHorizontal(pos(t.GetRowCount()-1), a, a+1)
			})
			guard("Table.UnmergeCells", &ps, func() { _ = t.UnmergeCells(pos(t.GetRowCount()-1), pos(t.GetColumnCount()-1)) })
			guard("Table.MergeCellsVertical", &ps, func() { _ = t.MergeCellsVertical(0, 1, pos(t.GetColumnCount()-1)) })
		}
		guard("Table.ClearTable", &ps, func() { t.ClearTable() })
	}
	var paras []*document.Paragraph
	guard("Body.GetParagraphs", &ps, func() { paras = d.Body.GetParagraphs() })
	for pi, p := range paras {
		if pi >= 4 {
			break
		}
		guard("Paragraph setters", &ps, func() {
			p.SetAlignment(document.AlignCenter)
			p.AddFormattedText("z", &document.TextFormat{Italic: true})
			p.SetStyle("Heading1")
			p.SetSpacing(&document.SpacingConfig{LineSpacing: 1.5})
			p.SetKeepWithNext(true)
			p.SetBold(true)
			p.SetFontSize(12)
		})
	}
	guard("document edits", &ps, func() {
		d.AddParagraph("appended")
		d.AddHeadingParagraph("h", 2)
		_, _ = d.AddTable(&document.TableConfig{Rows: 2, Cols: 2, Width: 4000})
		_ = d.SetPageMargins(10, 10, 10, 10)
		_ = d.SetPageOrientation(document.OrientationLandscape)
		_ = d.AddHeader(document.HeaderFooterTypeDefault, "hd")
		_ = d.AddFooterWithPageNumber(document.HeaderFooterTypeDefault, "p", true)
		w, h := imgDims(2)
		_, _ = d.AddImageFromData(imageBytes("png", 2), "i.png", document.ImageFormatPNG, w, h, nil)
		d.AddListItem("li", &document.ListConfig{Type: document.ListTypeBullet, BulletSymbol: document.BulletTypeDot})
		_ = d.GetFootnoteCount() + d.GetEndnoteCount()
		_ = d.AddFootnote("n", "t")
		_ = d.AddEndnote("n", "t")
		_ = d.RemoveFootnote("4")
		_ = d.RemoveEndnote("2")
		d.RestartNumbering("7")
		d.RestartNumbering("nope")
		_ = d.GenerateTOC(&document.TOCConfig{Title: "c", MaxLevel: 3})
	})
	var saved []byte
	if light {
		return
	}
	// every exported method of the document, its tables and its paragraphs, with made-up arguments; a panic counts
	// when the same call does not panic on a document that was never opened
	seed := r.next()
	if pan, calls := reflCalls(d, seed, os.TempDir(), reflOpts{}); true {
		reflCalled += len(calls)
		if len(pan) > 0 {
			twin, _ := reflCalls(apiTwin(), seed, os.TempDir(), reflOpts{})
			for k, p := range pan {
				if _, also := twin[k]; also {
					reflAlso[k]++
					continue
				}
				ps = append(ps, p)
			}
		}
	}
	guard("ToBytes after edits", &ps, func() {
		b, err := d.ToBytes()
		if err != nil {
			notes = append(notes, "save after edits failed: "+err.Error())
			return
		}
		saved = b
	})
	if saved != nil {
		v, err := readPackage(saved)
		if err != nil {
			notes = append(notes, "resaved package unreadable: "+err.Error())
		} else if v.Doc == nil {
			notes = append(notes, fmt.Sprintf("resaved main part is not well-formed: %v", v.XMLErr))
		}
		guard("reopen", &ps, func() {
			if _, err := document.OpenFromMemory(io.NopCloser(bytes.NewReader(saved))); err != nil {
				notes = append(notes, "resaved package does not reopen: "+err.Error())
			}
		})
	}
	return
}

// counts of the opened body that correspond to the reader's cases
type bodyCounts struct{ bodyP, bodyTbl, bodySect, bodyBmS, bodyBmE, bodySdt, sdtRuns, rows, cells, cellP, cellTbl, runs int }

func countTable(t *document.Table, c *bodyCounts) {
	for ri := range t.Rows {
		c.rows++
		for ci := range t.Rows[ri].Cells {
			c.cells++
			cell := &t.Rows[ri].Cells[ci]
			for pi := range cell.Paragraphs {
				c.cellP++
				c.runs += len(cell.Paragraphs[pi].Runs)
			}
			for ti := range cell.Tables {
				c.cellTbl++
				countTable(&cell.Tables[ti], c)
			}
		}
	}
}

// replacedContent: a structured document tag with more than one w:sdtContent child. The reader keeps the last one;
// the elements read inside the earlier ones are not in the opened document, so counting them there says nothing
// about what was read (the model counts what the reader reacted to).  Such parts are compared for success/error and
// the optional parts only.
func replacedContent(doc []byte) bool {
	dec := xml.NewDecoder(bytes.NewReader(doc))
	var stack []int // number of sdtContent children seen so far, per open element (-1: not an sdt)
	for {
		tok, err := dec.Token()
		if err != nil {
			return false
		}
		switch t := tok.(type) {
		case xml.StartElement:
			if t.Name.Local == "sdtContent" && len(stack) > 0 && stack[len(stack)-1] >= 0 {
				stack[len(stack)-1]++
				if stack[len(stack)-1] > 1 {
					return true
				}
			}
			if t.Name.Local == "sdt" {
				stack = append(stack, 0)
			} else {
				stack = append(stack, -1)
			}
		case xml.EndElement:
			if len(stack) > 0 {
				stack = stack[:len(stack)-1]
			}
		}
	}
}

func countBody(d *document.Document) bodyCounts {
	var c bodyCounts
	countElements(d.Body.Elements, &c)
	return c
}

// countElements: the body-level elements, and those in the content of structured document tags (the body-level
// dispatch reads both)
func countElements(els []interface{}, c *bodyCounts) {
	for _, e := range els {
		switch x := e.(type) {
		case *document.SDT:
			c.bodySdt++
			if x.Content != nil {
				countElements(x.Content.Elements, c)
			}
		case document.Run:
			c.sdtRuns++
		case *document.Paragraph:
			c.bodyP++
			c.runs += len(x.Runs)
		case *document.MathParagraph:
			// a body-level w:p that holds a formula
			c.bodyP++
			c.runs += len(x.Runs)
		case *document.Table:
			c.bodyTbl++
			countTable(x, c)
		case *document.SectionProperties:
			c.bodySect++
		case *document.BookmarkStart:
			c.bodyBmS++
		case *document.BookmarkEnd:
			c.bodyBmE++
		}
	}
}

func partHas(data []byte, name, needle string) bool {
	zr, err := zip.NewReader(bytes.NewReader(data), int64(len(data)))
	if err != nil {
		return false
	}
	for _, f := range zr.File {
		if f.Name == name {
			rc, err := f.Open()
			if err != nil {
				return false
			}
			b, _ := io.ReadAll(rc)
			rc.Close()
			return bytes.Contains(b, []byte(needle))
		}
	}
	return false
}

func zipReadable(data []byte) bool {
	zr, err := zip.NewReader(bytes.NewReader(data), int64(len(data)))
	if err != nil {
		return false
	}
	for _, f := range zr.File {
		rc, err := f.Open()
		if err != nil {
			return false
		}
		_, err = io.ReadAll(rc)
		rc.Close()
		if err != nil {
			return false
		}
	}
	return true
}

func runC06(cfg *runCfg) error {
	res := newResult("C06", cfg.seed)
	r := newRng(cfg.seed + 606)
	feats := map[string]int{}
	dist := newDistinct()
	base, err := buildRichDoc(newRng(77), &docFeat{feats: map[string]int{}}).ToBytes()
	if err != nil {
		return err
	}
	tmp := filepath.Join(cfg.out, "c06tmp")
	os.MkdirAll(tmp, 0755)
	defer os.RemoveAll(tmp)
	var coqCases []string
	failCount := map[string]int{}
	fail := func(ci int, clause, class, detail string, c *c06Case) {
		failCount[class]++
		if failCount[class] <= 4 {
			path := ""
			if cfg.only < 0 {
				path = filepath.Join(cfg.out, fmt.Sprintf("c06-failing-%d.docx", ci))
				os.WriteFile(path, c.data, 0644)
			}
			res.OracleFailures = append(res.OracleFailures, OracleFailure{Clause: clause, Class: class, Detail: fmt.Sprintf("%s (%s): %s", c.kind, c.label, detail), CaseID: ci,
				Case: map[string]interface{}{"seed": cfg.seed, "n": cfg.n, "only": ci, "input_hex_prefix": fmt.Sprintf("%x", c.data[:min(64, len(c.data))]), "input_len": len(c.data)}})
		}
	}
	opened, rejected := 0, 0
	for ci := 0; ci < cfg.n; ci++ {
		cr := r.fork()
		var c *c06Case
		if ci%4 == 3 {
			c = buildRawCase(cr, base, feats)
		} else {
			c = buildWeirdCase(cr, feats, cfg.tier)
		}
		if cfg.only >= 0 && ci != cfg.only {
			continue
		}
		res.Evaluations++
		dist.add(c.data)
		// watchdog: a case that does not finish kills the process (the parent then isolates it)
		done := make(chan struct{})
		go func(ci int, label string) {
			select {
			case <-done:
			case <-time.After(60 * time.Second):
				fmt.Fprintf(os.Stderr, "wzh C06: case %d (%s) does not terminate\n", ci, label)
				os.Exit(3)
			}
		}(ci, c.label)
		var d *document.Document
		var oerr error
		var ps []panicRec
		guard("OpenFromMemory", &ps, func() { d, oerr = document.OpenFromMemory(io.NopCloser(bytes.NewReader(c.data))) })
		// the file entry point must agree with the memory entry point
		if ci%5 == 0 {
			fn := filepath.Join(tmp, "in.docx")
			os.WriteFile(fn, c.data, 0644)
			var d2 *document.Document
			var e2 error
			guard("Open", &ps, func() { d2, e2 = document.Open(fn) })
			if (e2 == nil) != (oerr == nil) && len(ps) == 0 {
				fail(ci, "entry_points_agree", "open_vs_memory", fmt.Sprintf("Open: %v, OpenFromMemory: %v", e2, oerr), c)
			}
			_ = d2
		}
		if oerr == nil && d == nil && len(ps) == 0 {
			fail(ci, "error_or_document", "nil_nil", "neither an error nor a document", c)
		}
		if oerr == nil && d != nil {
			opened++
			if d.Body == nil {
				fail(ci, "usable_document", "nil_body", "opened document has no body", c)
			} else {
				p2, notes := exerciseDoc(d, cr, c.deep > 3000)
				ps = append(ps, p2...)
				for _, n := range notes {
					fail(ci, "resave_well_formed", "resave:"+strings.SplitN(n, ":", 2)[0], n, c)
				}
			}
		} else {
			rejected++
		}
		for _, p := range ps {
			fail(ci, "no_panic", "panic:"+p.where, p.msg, c)
		}
		close(done)
		// correspondence case
		if c.kind == "weird" && len(ps) == 0 {
			pk := "None"
			small := true
			if c.hasDoc {
				toks, clean, n := docTokens(c.doc, 4000)
				if n > 4000 {
					small = false
				} else {
					pk = fmt.Sprintf("(Some (%s, [%s]))", cBool(clean), strings.Join(toks, "; "))
				}
			}
			if small {
				st := func(i int) string { return []string{"PMissing", "PBad", "PGood"}[c.stat[i]] }
				obs := "[]"
				parts := "[]"
				if oerr == nil && d != nil && d.Body != nil {
					// counted on a fresh copy: the exercised document has been edited
					d0, e0 := document.OpenFromMemory(io.NopCloser(bytes.NewReader(c.data)))
					if e0 == nil && !replacedContent(c.doc) {
						bc := countBody(d0)
						// (section settings are not counted: a sectPr inside paragraph properties replaces the body's)
						obs = fmt.Sprintf(`[("parseBodySubElement", "p", %d); ("parseBodySubElement", "tbl", %d); ("parseBodySubElement", "bookmarkStart", %d); ("parseBodySubElement", "bookmarkEnd", %d); ("parseBodySubElement", "sdt", %d); ("parseSDTContent", "r", %d); ("parseTable", "tr", %d); ("parseTableRow", "tc", %d); ("parseTableCell", "p", %d); ("parseTableCell", "tbl", %d)]`,
							bc.bodyP, bc.bodyTbl, bc.bodyBmS, bc.bodyBmE, bc.bodySdt, bc.sdtRuns, bc.rows, bc.cells, bc.cellP, bc.cellTbl)
						sv, e1 := d0.ToBytes()
						if e1 == nil {
							parts = fmt.Sprintf("[%s; %s; %s]",
								cBool(partHas(sv, "[Content_Types].xml", "wzmark")),
								cBool(partHas(sv, "_rels/.rels", "rIdWz")),
								cBool(partHas(sv, "word/_rels/document.xml.rels", "rIdWzLink")))
							if d0.GetStyleManager().StyleExists("WzMarker") {
								feats["styles of the opened package reached the style manager"]++
							}
						}
					}
				}
				coqCases = append(coqCases, fmt.Sprintf("mkCase (mkPkg %s %s %s %s %s %s) %s\n  %s %s",
					cBool(zipReadable(c.data)), pk, st(0), st(1), st(2), st(3), cBool(oerr != nil || d == nil), obs, parts))
			}
		}
	}
	res.DistinctNontrivial = dist.n()
	res.Histogram = feats
	res.Extra["opened"] = opened
	res.Extra["rejected_with_error"] = rejected
	res.Extra["correspondence_cases"] = len(coqCases)
	if cfg.only < 0 {
		res.Shards = writeShardsPlain(cfg.out, "c06cases", "From Coq Require Import String List Bool.\nFrom WZ Require Import Model.Walk Model.Open Corr.WalkCorr.\nImport ListNotations.\nOpen Scope string_scope.\n", "case", "mismatches", coqCases, 60)
	}
	res.write(cfg.out)
	return nil
}
